----------------------------- MODULE DataReadout -----------------------------
(***************************************************************************)
(* One mode D data readout (IEC 62056-21), as octets:                      *)
(*    identification line, data lines, "!" [checksum] CR LF                *)
(* Declarative reading used by the contract (C04) and the structure the    *)
(* implementation derives from it (first "!" is the end character, data    *)
(* starts after the first LF).                                             *)
(***************************************************************************)
EXTENDS Ident, Crc16Arc, TLC

BangPositions(r) == {i \in 1..Len(r) : r[i] = BANG}
FirstPos(r, c) == SelectInSeq(r, LAMBDA x : x = c)      \* 0 if absent
EndPos(r)  == FirstPos(r, BANG)
DataPos(r) == FirstPos(r, LF) + 1                        \* 1-based index of the first data octet
FirstLine(r) == SubSeq(r, 1, DataPos(r) - 1)             \* including its line end (<<>> if there is no LF)
AfterEnd(r, e) == BStrip(SubSeq(r, e + 1, Len(r)))       \* text after the end character, stripped

IsHexDigit(c) == c \in 48..57 \/ c \in 65..70 \/ c \in 97..102
HexDigitVal(c) == IF c \in 48..57 THEN c - 48 ELSE IF c \in 65..70 THEN c - 55 ELSE c - 87
IsHex4(t) == Len(t) = 4 /\ \A i \in 1..4 : IsHexDigit(t[i])
HexVal(t) == FoldLeft(LAMBDA a, c : a * 16 + HexDigitVal(c), 0, t)
HexDigitChar(v) == IF v < 10 THEN 48 + v ELSE 55 + v
Hex4(v) == <<HexDigitChar(v \div 4096), HexDigitChar((v \div 256) % 16), HexDigitChar((v \div 16) % 16), HexDigitChar(v % 16)>>

CrcOf(r, e) == Crc16Arc(SubSeq(r, 1, e))                 \* every octet from "/" through "!" inclusive
IdentOk(r) == Matches(Strip(FirstLine(r)))
Payload(r, e) == SubSeq(r, DataPos(r), e - 1)

\* ---- implementation-shaped: the three steps of DataReadout.is_valid, in the code's order (repaired tree).
\* int(text, 16) is modelled for plain hexadecimal digit strings of any length; Python's further leniency
\* (sign, 0x prefix, underscores) is a named deviation: such texts count as unparsable here.
AllHex(t) == t # <<>> /\ \A i \in 1..Len(t) : IsHexDigit(t[i])
IsValidImpl(r) ==
   LET e == EndPos(r)
       endraw == SubSeq(r, e, Len(r))
       endline == Strip(endraw)
       text == Strip(SubSeq(endline, 2, Len(endline)))
       haveSum == Len(endline) > 1
   IN /\ IsAscii(endraw)                                   \* decode("ascii") of the end line
      /\ (haveSum => AllHex(text) /\ Len(text) <= 7 /\ HexVal(text) = CrcOf(r, e))
      /\ IsAscii(FirstLine(r)) /\ Matches(Strip(FirstLine(r)))
      /\ \A i \in DataPos(r)..(e - 1) : r[i] <= 128
PayloadImpl(r) == SubSeq(r, DataPos(r), EndPos(r) - 1)

\* ---- growth (DESIGN §12): the other accessors of DataReadout, implementation-shaped (DRIFT level)
\* end_line = the text from the end character on, decoded as ASCII and stripped (raises on non-ASCII);
\* expected_checksum = None (-1) without text after "!", int(text, 16) for plain hexadecimal text ("free" otherwise, see above)
EndRaw(r) == SubSeq(r, EndPos(r), Len(r))
EndLineImpl(r) == Strip(EndRaw(r))
ExpectedImpl(r) == \* <<judged, value>>: value -1 = None, -2 = raises
   LET endline == EndLineImpl(r) text == Strip(SubSeq(endline, 2, Len(endline))) IN
   IF ~IsAscii(EndRaw(r)) THEN <<TRUE, -2>>
   ELSE IF Len(endline) <= 1 THEN <<TRUE, -1>>
   ELSE IF AllHex(text) /\ Len(text) <= 7 THEN <<TRUE, HexVal(text)>>
   ELSE <<FALSE, 0>>

\* reference encoder: ident (without line end), data lines (without line ends), checksum mode
Crlf == <<CR, LF>>
Lines(ls) == FoldLeft(LAMBDA a, l : a \o l \o Crlf, <<>>, ls)
MkReadout(ident, lines, ck) ==
   LET body == ident \o Crlf \o Lines(lines) \o <<BANG>>
       crc == Crc16Arc(body)
   IN IF ck = "none" THEN body \o Crlf
      ELSE IF ck = "ok" THEN body \o Hex4(crc) \o Crlf
      ELSE IF ck = "lower" THEN body \o [i \in 1..4 |-> IF Hex4(crc)[i] \in 65..70 THEN Hex4(crc)[i] + 32 ELSE Hex4(crc)[i]] \o Crlf
      ELSE IF ck = "zero" THEN body \o <<48, 48, 48, 48>> \o Crlf
      ELSE IF ck = "off" THEN body \o Hex4((crc + 1) % 65536) \o Crlf
      ELSE body \o <<122, 122>> \o Crlf                     \* "nonhex"
=============================================================================
