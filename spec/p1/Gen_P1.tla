-------------------------------- MODULE Gen_P1 --------------------------------
(***************************************************************************)
(* spec -> code for the P1 readout: every case of the readout grammar      *)
(*   identification shape x data lines x checksum mode                     *)
(* encoded with the reference encoder (real CRC-16), together with what    *)
(* the contract C04 demands for it:                                        *)
(*   expect = "valid"    clause (c) applies: must be reported valid        *)
(*            "invalid"  clause (a) or (b) applies: must not be valid      *)
(*            "free"     the statement does not decide                     *)
(* and the exact payload for valid readouts.                               *)
(***************************************************************************)
EXTENDS P1Contract, Json, IOUtils

S(str) == str    \* octet sequences are written out as numbers below
Idents == << <<47, 76, 71, 70, 53, 69, 51, 54, 48>>,                                   \* /LGF5E360
             <<47, 65, 66, 99, 48, 92, 50, 120>>,                                      \* /ABc0\2x   (escape + id)
             <<47, 75, 70, 77, 53, 75, 65, 73, 70, 65, 45, 77, 65, 49, 48, 53, 67>>,   \* /KFM5KAIFA-MA105C
             <<47, 65, 66, 67, 53, 49, 50, 51, 52, 53, 54, 55, 56, 57, 48, 49, 50, 51, 52, 53, 54>>,  \* 16 id characters
             <<47, 69, 76, 76, 53, 92, 50, 92, 51, 77, 84, 51, 56, 50>>,                 \* /ELL5\2\3MT382   (two escape sequences)
             <<47, 88, 77, 88, 53, 92, 50, 92, 51, 92, 87, 76, 71, 66, 66, 70, 70, 66, 50, 51, 49, 51, 49, 52, 50, 51, 57>>,   \* three escapes + 16 id characters
             <<47, 65, 66, 67, 53>>,                                                    \* no identification (tolerated by the pattern)
             <<47, 97, 66, 67, 53, 120>>,                                               \* bad: lower-case first letter
             <<47, 65, 66, 67, 120, 120>>,                                              \* bad: no baud digit
             <<47, 65, 66, 67, 53, 49, 50, 51, 52, 53, 54, 55, 56, 57, 48, 49, 50, 51, 52, 53, 54, 55>> >>   \* bad: 17 id characters
LineSets == << <<>>, << <<>> >>,
               << <<49, 45, 48, 58, 49, 46, 56, 46, 48, 40, 48, 48, 49, 46, 53, 42, 107, 87, 104, 41>> >>,    \* 1-0:1.8.0(001.5*kWh)
               << <<>>, <<48, 45, 48, 58, 49, 46, 48, 46, 48, 40, 50, 49, 48, 49, 48, 54, 49, 54, 48, 55, 49, 48, 87, 41>>,
                  <<49, 45, 48, 58, 51, 50, 46, 55, 46, 48, 40, 50, 51, 48, 46, 49, 42, 86, 41>> >> >>
Cks == <<"ok", "none", "lower", "zero", "off", "nonhex">>

Case(i, j, k) ==
  LET r == MkReadout(Idents[i], LineSets[j], Cks[k])
      ro(v) == [o |-> r, valid |-> v, vraised |-> "", payload |-> <<>>, raised |-> ""]
      must == C04c(ro(FALSE)) = FALSE          \* clause (c) forces valid
      mustnot == C04a(ro(TRUE)) = FALSE \/ C04b(ro(TRUE)) = FALSE
  IN [id |-> i * 100 + j * 10 + k, o |-> r, ck |-> Cks[k],
      expect |-> IF must THEN "valid" ELSE IF mustnot THEN "invalid" ELSE "free",
      payload |-> Payload(r, TheEnd(r))]

ASSUME JsonSerialize(IOEnv.OUT_FILE, SetToSeq({Case(i, j, k) : i \in 1..Len(Idents), j \in 1..Len(LineSets), k \in 1..Len(Cks)}))
=============================================================================
