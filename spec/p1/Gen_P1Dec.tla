------------------------------- MODULE Gen_P1Dec -------------------------------
(* spec -> code: P1 data blocks enumerated by the specification, with their wire text:                       *)
(*  - truncation sweep: every three-digit fraction x integer parts x the four kilo units                      *)
(*  - value shapes (0..3 fractional digits, leading zeros) x plain/kilo units in mixed letter case            *)
(*  - block shapes: several data sets per line, multi-valued sets, blank lines, unknown codes, clock, text    *)
EXTENDS P1Decode, Json, IOUtils
T(n) == Dig(n)
D3(n) == <<48 + (n \div 100), 48 + ((n \div 10) % 10), 48 + (n % 10)>>
V(value, unit) == [value |-> value, unit |-> unit, hasunit |-> unit # <<>>]
DS(g, vals) == [groups |-> g, values |-> vals]
KWH == <<107, 87, 104>>
KW == <<107, 87>>
KVAR == <<107, 86, 65, 114>>
KVARH == <<75, 118, 97, 114, 72>>
Sweep == {<< <<DS(<<1, 0, 1, 8, 0, None>>, <<V(ip \o <<DOT>> \o D3(f), u)>>)>> >> :
             ip \in {<<48>>, <<49, 50>>, <<48, 48, 48, 49, 50, 51>>}, f \in 0..999, u \in {KWH}}
          \cup {<< <<DS(<<1, 0, 2, 7, 0, None>>, <<V(<<55>> \o <<DOT>> \o D3(f), u)>>)>> >> : f \in {0, 1, 7, 29, 57, 99, 100, 115, 290, 999}, u \in {KW, KVAR, KVARH}}
Shapes == {
  << <<DS(<<1, 0, 32, 7, 0, None>>, <<V(<<50, 51, 48, 46, 49>>, <<86>>)>>), DS(<<1, 0, 31, 7, 0, None>>, <<V(<<48, 48, 48, 46, 54>>, <<65>>)>>)>>,
     <<>>,
     <<DS(<<0, 0, 1, 0, 0, None>>, <<V(<<50, 49, 48, 49, 48, 54, 49, 54, 48, 55, 49, 48, 87>>, <<>>)>>)>>,
     <<DS(<<0, 0, 96, 1, 1, None>>, <<V(<<52, 53, 51, 50>>, <<>>)>>)>>,
     <<DS(<<1, 0, 99, 97, 0, None>>, <<V(<<53>>, <<>>), V(<<48, 45, 48, 58, 57, 54, 46, 55, 46, 49, 57>>, <<>>), V(<<48, 48, 53>>, <<115>>)>>)>>,
     <<DS(<<None, None, 13, 7, 0, None>>, <<V(<<48, 46, 57, 57>>, <<>>)>>)>>,
     <<DS(<<1, 0, 3, 8, 0, 255>>, <<V(<<48, 48, 53, 49, 56, 46, 51, 48, 57>>, <<107, 86, 65, 114, 104>>)>>)>> >>,
  << <<DS(<<1, 0, 52, 7, 0, None>>, <<V(<<50, 51, 50>>, <<118>>)>>)>>, <<DS(<<1, 0, 4, 7, 0, None>>, <<V(<<48>>, <<118, 97, 114>>)>>)>>,
     <<DS(<<1, 0, 4, 8, 0, None>>, <<V(<<49, 50, 46, 53>>, <<86, 65, 82, 72>>)>>)>> >> }
Case(b, eol) == [block |-> b, eol |-> eol, text |-> Render(b, IF eol = "crlf" THEN <<13, 10>> ELSE <<10>>)]
ASSUME \A b \in Sweep \cup Shapes : BlockOk(b)
ASSUME JsonSerialize(IOEnv.OUT_FILE, SetToSeq({Case(b, "crlf") : b \in Sweep \cup Shapes} \cup {Case(b, "lf") : b \in Shapes}))
=============================================================================
