------------------------------- MODULE P1Decode -------------------------------
(***************************************************************************)
(* Meaning of a P1 data block (C11).                                       *)
(* abstract block = Seq(line), line = Seq(data set) (<<>> = blank line),   *)
(* data set = [groups (OBIS value groups of the address), values], value = *)
(* [value : text, unit : text, hasunit].  Text = octets.                   *)
(*  Render    the wire text (reference encoder; eol = <<10>> or <<13,10>>) *)
(*  Parsed    what parse_p1_readout_content must return                    *)
(*  Meaning   what decoding must return: entries [name, k, ...]            *)
(*            k = "num"   exactly this decimal   (V, A, var, varh)         *)
(*                "range" integer n, lo <= n <= hi (kW, kWh, kvar, kvarh:  *)
(*                        within one unit below the exact product x 1000)  *)
(*                "dt"    local date-time from YYMMDDhhmmss (address 1.0.0)*)
(*                "text"  verbatim                                         *)
(***************************************************************************)
EXTENDS Obis, ObisMap
LPAR == 40
RPAR == 41
RenderValue(v) == <<LPAR>> \o v.value \o (IF v.hasunit THEN <<ASTER>> \o v.unit ELSE <<>>) \o <<RPAR>>
RenderSet(ds) == Reduced(ds.groups) \o FoldLeft(LAMBDA a, v : a \o RenderValue(v), <<>>, ds.values)
RenderLine(l) == FoldLeft(LAMBDA a, ds : a \o RenderSet(ds), <<>>, l)
Render(block, eol) == FoldLeft(LAMBDA a, l : a \o RenderLine(l) \o eol, <<>>, block)

AllSets(block) == FoldLeft(LAMBDA a, l : a \o l, <<>>, block)
Parsed(block) == LET s == AllSets(block) IN
   [i \in 1..Len(s) |-> [addr |-> Reduced(s[i].groups),
                         values |-> [j \in 1..Len(s[i].values) |-> [value |-> s[i].values[j].value, unit |-> s[i].values[j].unit,
                                                                      hasunit |-> s[i].values[j].hasunit]]]]

Lower(c) == IF c \in 65..90 THEN c + 32 ELSE c
LowerS(s) == [i \in 1..Len(s) |-> Lower(s[i])]
UnitsPlain == {<<118>>, <<97>>, <<118, 97, 114>>, <<118, 97, 114, 104>>}                                  \* v a var varh
UnitsKilo  == {<<107, 119>>, <<107, 119, 104>>, <<107, 118, 97, 114>>, <<107, 118, 97, 114, 104>>}        \* kw kwh kvar kvarh

\* decimal text "0012.340" -> digits and number of fractional digits
IsDecimalText(t) == /\ t # <<>> /\ \A i \in 1..Len(t) : IsDigitC(t[i]) \/ t[i] = DOT
                    /\ Cardinality({i \in 1..Len(t) : t[i] = DOT}) <= 1
                    /\ \E i \in 1..Len(t) : IsDigitC(t[i])
DotPos(t) == LET P == {i \in 1..Len(t) : t[i] = DOT} IN IF P = {} THEN 0 ELSE CHOOSE i \in P : TRUE
DigitsOf(t) == LET d == SelectSeq(t, IsDigitC) IN [i \in 1..Len(d) |-> d[i] - 48]
FracLen(t) == IF DotPos(t) = 0 THEN 0 ELSE Len(t) - DotPos(t)
DecOf(t) == Num(FALSE, DigitsOf(t), -FracLen(t))                       \* the transmitted number
TimesThousand(t) == Num(FALSE, DigitsOf(t), 3 - FracLen(t))            \* exact product; an integer when FracLen <= 3

TwoDig(t, i) == (t[i] - 48) * 10 + (t[i + 1] - 48)
ClockOf(t) == <<2000 + TwoDig(t, 1), TwoDig(t, 3), TwoDig(t, 5), TwoDig(t, 7), TwoDig(t, 9), TwoDig(t, 11), 0, FALSE, 0>>

CdeOf(g) == <<g[3], g[4], g[5]>>
NameFor(g) == IF Known(CdeOf(g)) THEN NameOf(CdeOf(g)) ELSE "cde:" \* placeholder, completed by the text below
NameText(g) == CDE(g)          \* "C.D.E" as octets, used when the code is unknown

Entry(ds) ==
   LET v == ds.values[1]
       u == IF v.hasunit THEN LowerS(v.unit) ELSE <<>>
       base == [known |-> Known(CdeOf(ds.groups)), name |-> IF Known(CdeOf(ds.groups)) THEN NameOf(CdeOf(ds.groups)) ELSE "",
                nametext |-> NameText(ds.groups), neg |-> FALSE, int |-> <<>>, frac |-> <<>>, hi |-> <<>>, t |-> <<>>, dt |-> <<>>]
   IN IF v.hasunit /\ u \in UnitsPlain THEN LET d == DecOf(v.value) IN [base EXCEPT !.int = d.int, !.frac = d.frac] @@ [k |-> "num"]
      ELSE IF v.hasunit /\ u \in UnitsKilo THEN
           LET x == TimesThousand(v.value) IN
           [base EXCEPT !.hi = x.int, !.int = IF x.int = <<0>> THEN <<0>> ELSE Pred(x.int)] @@ [k |-> "range"]
      ELSE IF CdeOf(ds.groups) = <<1, 0, 0>> THEN [base EXCEPT !.dt = ClockOf(v.value)] @@ [k |-> "dt"]
      ELSE [base EXCEPT !.t = v.value] @@ [k |-> "text"]
Meaning(block) == LET s == SelectSeq(AllSets(block), LAMBDA ds : Len(ds.values) = 1) IN [i \in 1..Len(s) |-> Entry(s[i])]

\* domain of the statement
PrintableNoSyntax(t) == \A i \in 1..Len(t) : t[i] \in 32..126 /\ t[i] \notin {LPAR, RPAR, ASTER, 47, 33}
ValueOk(ds, v) ==
   /\ PrintableNoSyntax(v.value) /\ (v.hasunit => v.unit # <<>> /\ PrintableNoSyntax(v.unit))
   /\ ((v.hasunit /\ LowerS(v.unit) \in UnitsPlain \cup UnitsKilo) => IsDecimalText(v.value) /\ FracLen(v.value) <= 3 /\ Len(StripLead(DigitsOf(v.value))) <= 15)
   /\ ((~(v.hasunit /\ LowerS(v.unit) \in UnitsPlain \cup UnitsKilo) /\ CdeOf(ds.groups) = <<1, 0, 0>> /\ Len(ds.values) = 1) =>
          Len(v.value) >= 12 /\ \A i \in 1..12 : IsDigitC(v.value[i]))
BlockOk(block) ==
   /\ AllSets(block) # <<>>                         \* an empty block is refused by the decoder (documented ValueError)
   /\ \A i \in 1..Len(block) : \A j \in 1..Len(block[i]) :
        LET ds == block[i][j] IN /\ WellFormedGroups(ds.groups) /\ ds.groups[5] # None /\ Len(ds.values) >= 1
                                 /\ \A q \in 1..Len(ds.values) : ValueOk(ds, ds.values[q])
   /\ LET m == Meaning(block) IN \A i, j \in 1..Len(m) : i # j => (m[i].known # m[j].known \/ m[i].name # m[j].name \/ m[i].nametext # m[j].nametext)
=============================================================================
