------------------------------- MODULE Gen_P1Parse -------------------------------
(* spec -> code: the parse result the specification expects for every line up to   *)
(* GenLen over {a, (, ), *} (read from the environment), for replay into           *)
(* DataSet.parse_data_block.                                                       *)
EXTENDS P1Parse, Json, IOUtils
N == IF "GEN_LEN" \in DOMAIN IOEnv THEN (CHOOSE n \in 0..9 : ToString(n) = IOEnv.GEN_LEN) ELSE 6
Alphabet == {97, LP, RP, STAR}
Lines == UNION {[1..n -> Alphabet] : n \in 1..N}
ASSUME JsonSerialize(IOEnv.OUT_FILE, SetToSeq({[line |-> l, res |-> ParseLine(l)] : l \in Lines}))
=============================================================================
