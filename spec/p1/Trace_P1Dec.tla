------------------------------ MODULE Trace_P1Dec ------------------------------
(* Judge recorded parse/decode results of han/dlde.py for generated P1 data blocks (C11).                 *)
(* trace = [id, canary, block, eol, text, ident, parse, content, readout, auto]                           *)
(*   text    the block as fed to the code; must equal Render(block, eol)                                  *)
(*   ident   identification line (without line end) used for the whole-readout path, <<>> = none          *)
(*   parse   [raised, items]     parse_p1_readout_content(text)                                           *)
(*   content [raised, entries]   decode_p1_readout_content(text)                                          *)
(*   readout [raised, entries]   decode_p1_readout(DataReadout(ident + text + "!"))                       *)
(*   auto    [raised, entries]   AutoDecoder().decode_message_payload(text)                               *)
(*   autoh   [raised, entries]   decode_message_payload(text) of an AutoDecoder with a history of P1 messages *)
(*   automsg [raised, entries]   decode_message(DataReadout) of that same AutoDecoder (ident # <<>>)      *)
(*   entry = [name, nametext, k, neg, int, frac, t, dt]                                                   *)
EXTENDS P1Decode, Ident, Json, IOUtils
Eol(t) == IF t.eol = "crlf" THEN <<13, 10>> ELSE <<10>>
NameMatch(e, x) == IF e.known THEN x.name = e.name ELSE x.nametext = e.nametext
ValMatch(e, x) ==
   IF e.k = "num" THEN x.k = "num" /\ ~x.neg /\ x.int = e.int /\ x.frac = e.frac
   ELSE IF e.k = "range" THEN x.k = "num" /\ ~x.neg /\ x.frac = <<>> /\ CmpInt(e.int, x.int) <= 0 /\ CmpInt(x.int, e.hi) <= 0
   ELSE IF e.k = "dt" THEN x.k = "dt" /\ x.dt = e.dt
   ELSE x.k = "text" /\ x.t = e.t
DictOk(exp, got) == /\ Len(got) = Len(exp)
                    /\ \A i \in 1..Len(exp) : \E j \in 1..Len(got) : NameMatch(exp[i], got[j]) /\ ValMatch(exp[i], got[j])
AsSet(entries) == {entries[i] : i \in 1..Len(entries)}
IsIdentField(x) == x.name \in {"meter_manufacturer_id", "meter_type_id"}
TextEntry(name, t) == [name |-> name, k |-> "text", t |-> t]
Verdict(t) ==
  LET bad(c) == [id |-> t.id, ok |-> FALSE, clause |-> c]
      exp == Meaning(t.block)
      idf == SelectSeq(t.readout.entries, IsIdentField)
      rest == SelectSeq(t.readout.entries, LAMBDA x : ~IsIdentField(x))
      idline == t.ident \o <<13, 10>>
      wantId == {[name |-> "meter_manufacturer_id", t |-> ManId(idline)]}
                \cup (IF IdPart(idline) # <<>> THEN {[name |-> "meter_type_id", t |-> IdPart(idline)]} ELSE {})
  IN IF ~BlockOk(t.block) \/ t.text # Render(t.block, Eol(t)) THEN bad("plan")
     ELSE IF t.ident # <<>> /\ ~Matches(idline) THEN bad("plan")
     ELSE IF t.parse.raised # "" THEN bad("C11.parse_raised")
     ELSE IF t.parse.items # Parsed(t.block) THEN bad("C11.parse")
     ELSE IF t.content.raised # "" THEN bad("C11.decode_raised")
     ELSE IF ~DictOk(exp, t.content.entries) THEN bad("C11.decode")
     ELSE IF t.auto.raised # "" \/ AsSet(t.auto.entries) # AsSet(t.content.entries) THEN bad("C11.autodecoder_path")
     ELSE IF t.autoh.raised # "" \/ AsSet(t.autoh.entries) # AsSet(t.content.entries) THEN bad("C11.autodecoder_history_path")
     ELSE IF t.ident = <<>> THEN [id |-> t.id, ok |-> TRUE, clause |-> ""]
     ELSE IF t.readout.raised # "" THEN bad("C11.readout_raised")
     ELSE IF AsSet(rest) # AsSet(t.content.entries) THEN bad("C11.readout_path")
     ELSE IF {[name |-> x.name, t |-> x.t] : x \in AsSet(idf)} # wantId \/ \E x \in AsSet(idf) : x.k # "text" THEN bad("C11.ident_fields")
     ELSE IF t.automsg.raised # "" \/ AsSet(t.automsg.entries) # AsSet(t.readout.entries) THEN bad("C11.autodecoder_message_path")
     ELSE [id |-> t.id, ok |-> TRUE, clause |-> ""]
Traces == ndJsonDeserialize(IOEnv.TRACE_FILE)
ASSUME JsonSerialize(IOEnv.OUT_FILE, [i \in 1..Len(Traces) |-> Verdict(Traces[i])])
=============================================================================
