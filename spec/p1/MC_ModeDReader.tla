---------------------------- MODULE MC_ModeDReader ----------------------------
(***************************************************************************)
(* Bounded model: Impl (ModeDReader with its buffer) => Contract.          *)
(* The environment builds a wire from a library of segments made of real   *)
(* octets (readouts of 8/10/12 octets whose identification line really     *)
(* matches the pattern, tails of readouts, and junk: stray characters, a   *)
(* "/" alone, a bad identification line, an identification line that is    *)
(* never ended, stray end lines, a non-ASCII octet), then feeds it under   *)
(* ALL chunkings with call lengths {1,2,3,5,7,rest}.  GuardMax is scaled   *)
(* to 14 (8191 in the code) so that the buffer guard is exercised.         *)
(*   CleanDelivered  C05  clean stream => every complete readout exactly   *)
(*                        once, in order, byte-identical                   *)
(*   Resync          C16  after anything, all clean readouts but the first *)
(*   BufBounded      C19  retained <= GuardMax + last chunk                *)
(* Pinned = TRUE runs the reader of the pinned tree (design-level          *)
(* counterexamples of F5).                                                 *)
(***************************************************************************)
EXTENDS ModeDReader, P1Contract
CONSTANTS MaxSegs, GuardMax, Pinned

I  == <<47, 65, 65, 65, 53, 10>>           \* "/AAA5" LF
D  == <<100, 10>>                           \* "d" LF
D2 == <<101, 10>>                           \* "e" LF
E  == <<33, 10>>                            \* "!" LF
R0 == I \o E
R1 == I \o D \o E
R2 == I \o D \o D2 \o E
Clean == {R0, R1, R2}
Tails == {D \o E, <<53, 10>> \o E, E}       \* proper suffixes of readouts (only as first segment)
Junk  == { <<120>>, <<47>>, <<10>>, E, I, D, <<255>>, <<47, 122, 122, 10>>, <<47, 65, 65, 65, 53>> }
Segs == Clean \cup Junk

VARIABLES wire, segs, fedn, st, pos, outs, phase, lastChunk
vars == <<wire, segs, fedn, st, pos, outs, phase, lastChunk>>
Init == /\ wire = <<>> /\ segs = <<>> /\ fedn = 0 /\ st = M0 /\ pos = 0 /\ outs = <<>> /\ phase = "build" /\ lastChunk = 0
AddSeg == /\ phase = "build" /\ Len(segs) < MaxSegs
          /\ \E sg \in Segs \cup (IF segs = <<>> THEN Tails ELSE {}) : wire' = wire \o sg /\ segs' = Append(segs, sg)
          /\ UNCHANGED <<fedn, st, pos, outs, phase, lastChunk>>
Close == phase = "build" /\ Len(segs) > 0 /\ phase' = "read" /\ UNCHANGED <<wire, segs, fedn, st, pos, outs, lastChunk>>
Read == /\ phase = "read" /\ fedn < Len(wire)
        /\ \E n \in {1, 2, 3, 5, 7, Len(wire) - fedn} :
             /\ n <= Len(wire) - fedn
             /\ LET ch == SubSeq(wire, fedn + 1, fedn + n) IN
                IF Pinned THEN LET r == ReadCallPinned(GuardMax, st, pos, ch) IN st' = r[1] /\ pos' = r[2] /\ outs' = outs \o r[3]
                ELSE LET r == ReadCall(GuardMax, st, ch) IN st' = r[1] /\ pos' = 0 /\ outs' = outs \o r[2]
             /\ fedn' = fedn + n /\ lastChunk' = n
        /\ UNCHANGED <<wire, segs, phase>>
Next == AddSeg \/ Close \/ Read
Spec == Init /\ [][Next]_vars

SegEnd(i) == FoldLeft(LAMBDA a, j : a + Len(segs[j]), 0, [j \in 1..i |-> j])
IsCleanStream == /\ \A i \in 2..Len(segs) : segs[i] \in Clean
                 /\ Len(segs) >= 1 /\ (segs[1] \in Clean \/ (segs[1] \in Tails /\ segs[1] \notin Junk) \/ segs[1] = E \/ segs[1] = D \o E)
CleanDelivered ==
   (phase = "read" /\ \A i \in 2..Len(segs) : segs[i] \in Clean) =>
     ((segs[1] \in Clean \/ segs[1] \in Tails) =>
        LET done == SelectSeq([i \in 1..Len(segs) |-> i], LAMBDA i : segs[i] \in Clean /\ (i > 1 \/ segs[1] \notin Tails) /\ SegEnd(i) <= fedn)
        IN outs = [j \in 1..Len(done) |-> segs[done[j]]])
\* a first segment that is both a tail and junk (E) is read as a tail here
LastJunk == LET J == {i \in 1..Len(segs) : segs[i] \notin Clean} IN IF J = {} THEN 0 ELSE CHOOSE i \in J : \A j \in J : j <= i
Resync == (phase = "read" /\ fedn = Len(wire)) =>
             LET req == SelectSeq([i \in 1..Len(segs) |-> i], LAMBDA i : i > LastJunk + 1)
             IN IsSubseq([j \in 1..Len(req) |-> segs[req[j]]], outs)
\* Witnesses (vacuity guards): invariants TLC must find VIOLATED
W_TwoDelivered == ~(phase = "read" /\ Len(outs) >= 2)
W_TailThenClean == ~(phase = "read" /\ Len(segs) >= 2 /\ segs[1] \in Tails /\ (\A i \in 2..Len(segs) : segs[i] \in Clean) /\ Len(outs) >= 1)
W_ResyncBinds == ~(phase = "read" /\ fedn = Len(wire) /\ LastJunk > 0 /\ LastJunk + 1 < Len(segs))
W_RetainedAtGuard == ~((IF Pinned THEN Len(st.buf) + Len(st.raw) ELSE Retained(st)) >= GuardMax)
BufBounded == (IF Pinned THEN Len(st.buf) + Len(st.raw) ELSE Retained(st)) <= GuardMax + lastChunk
=============================================================================
