------------------------------ MODULE P1Contract ------------------------------
(***************************************************************************)
(* Contract of the P1 reader and readout: the clauses of C04, C05, C14 and *)
(* C16 (P1 part) as predicates over observed histories.                    *)
(*   readout observation ro = [o (as_bytes), valid, vraised, payload, ...] *)
(*   plan item = [k |-> "noise", o] | [k |-> "tail", ident, lines, ck, cut]*)
(*             | [k |-> "readout", ident, lines, ck]                       *)
(***************************************************************************)
EXTENDS DataReadout, FiniteSets

\* ------------------------------------------------------------------- C04
TheEnd(r) == CHOOSE e \in BangPositions(r) : TRUE
C04a(ro) == ro.valid => IdentOk(ro.o)
C04b(ro) == LET r == ro.o IN Cardinality(BangPositions(r)) = 1 =>
              LET e == TheEnd(r) t == AfterEnd(r, e) IN
              (IsHex4(t) /\ HexVal(t) # CrcOf(r, e)) => ~ro.valid
C04c(ro) == LET r == ro.o IN Cardinality(BangPositions(r)) = 1 =>
              LET e == TheEnd(r) t == AfterEnd(r, e) IN
              (IsAscii(r) /\ IdentOk(r) /\ (t = <<>> \/ (IsHex4(t) /\ HexVal(t) = CrcOf(r, e)))) => ro.valid
C04d(ro) == LET r == ro.o IN (ro.valid /\ Cardinality(BangPositions(r)) = 1) => ro.payload = Payload(r, TheEnd(r))

\* ------------------------------------------------------------------- plans
ItemReadout(it) == MkReadout(it.ident, it.lines, it.ck)
ItemWire(it) == IF it.k = "noise" THEN it.o
                ELSE IF it.k = "tail" THEN LET r == ItemReadout(it) IN SubSeq(r, it.cut + 1, Len(r))
                ELSE ItemReadout(it)
PlanWire(plan) == FoldLeft(LAMBDA a, it : a \o ItemWire(it), <<>>, plan)
DataLineOk(l) == AllPrint(l) /\ \A i \in 1..Len(l) : l[i] # SLASH /\ l[i] # BANG
WellFormedReadout(it) ==
   /\ Matches(it.ident \o Crlf)
   /\ \A i \in 2..Len(it.ident) : it.ident[i] # SLASH /\ it.ident[i] # BANG      \* IEC 62056-21: printable except "/" and "!"
   /\ \A i \in 1..Len(it.lines) : DataLineOk(it.lines[i])
   /\ it.ck \in {"ok", "none"}
   /\ Len(ItemReadout(it)) <= 7400                    \* "each readout well below 8 KiB"
PlanReadouts(plan) == LET idx == SelectSeq([i \in 1..Len(plan) |-> i], LAMBDA i : plan[i].k = "readout")
                      IN [j \in 1..Len(idx) |-> ItemReadout(plan[idx[j]])]

\* C05 stream: [tail of a well-formed readout]? readout*
CleanShape(plan) ==
   /\ Len(plan) >= 1
   /\ \A i \in 1..Len(plan) :
        /\ plan[i].k \in {"tail", "readout"}
        /\ (plan[i].k = "tail" => i = 1 /\ plan[i].cut >= 1 /\ plan[i].cut < Len(ItemReadout(plan[i])))
        /\ WellFormedReadout(plan[i])

\* C16 stream: noise+ readout+ (readouts back to back, pairwise distinct)
ResyncShape(plan) ==
   LET J == {i \in 1..Len(plan) : plan[i].k = "noise"}
       ne == IF J = {} THEN 0 ELSE CHOOSE i \in J : \A j \in J : j <= i
       rs == PlanReadouts(plan) IN
   /\ \A i \in 1..ne : plan[i].k = "noise"
   /\ Len(plan) > ne
   /\ \A i \in (ne + 1)..Len(plan) : plan[i].k = "readout" /\ WellFormedReadout(plan[i])
   /\ \A i, j \in 1..Len(rs) : i # j => rs[i] # rs[j]

IsSubseq(a, b) == LET r == FoldLeft(LAMBDA i, x : IF i <= Len(a) /\ a[i] = x THEN i + 1 ELSE i, 1, b) IN r > Len(a)
=============================================================================
