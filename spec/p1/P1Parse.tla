-------------------------------- MODULE P1Parse --------------------------------
(***************************************************************************)
(* DataSet.parse_data_block of han/dlde.py for ONE line, as a machine over *)
(* scan positions (0-based, -1 = done), with the code's branch structure:  *)
(*   address  = text up to the next "("                                    *)
(*   values   = consecutive parenthesised groups, each split at "*" into   *)
(*              value and unit (more than one "*" is an error)             *)
(*   several data sets per line; text without values is ignored            *)
(* GetAV(line, from) mirrors get_address_and_values and returns            *)
(*   [pos, address (<<>> + hasaddr), values, err].                         *)
(* Fixed = TRUE: repaired tree (a value without ")" is an error, text      *)
(* after the last value is ignored).  Fixed = FALSE: pinned tree, where    *)
(* the position can fall back to 0 -- TLC finds the lasso (MC_P1Parse).    *)
(***************************************************************************)
EXTENDS Integers, Sequences, SequencesExt, TLC
LP == 40
RP == 41
STAR == 42
Find(line, c, from0) == \* 0-based index of c at or after 0-based from0, -1 if none
   LET idx == {i \in (from0 + 1)..Len(line) : line[i] = c} IN
   IF from0 < 0 \/ idx = {} THEN -1 ELSE (CHOOSE i \in idx : \A j \in idx : i <= j) - 1
Slice(line, a, b) == SubSeq(line, a + 1, b)            \* Python line[a:b], 0 <= a
StarCount(v) == Cardinality({i \in 1..Len(v) : v[i] = STAR})
ParseValue(v) == LET s == Find(v, STAR, 0) IN
   IF s < 0 THEN [value |-> v, unit |-> <<>>, hasunit |-> FALSE]
   ELSE [value |-> Slice(v, 0, s), unit |-> Slice(v, s + 1, Len(v)), hasunit |-> TRUE]

RECURSIVE Values(_, _, _, _)
Values(fixed, line, from, vals) == \* the while-loop; returns [pos, values, err]
   IF from <= 0 THEN [pos |-> from, values |-> vals, err |-> ""]
   ELSE LET ve == Find(line, RP, from) IN
        IF ve < 0 /\ fixed THEN [pos |-> from, values |-> vals, err |-> "ValueError"]
        ELSE LET \* pinned: find() = -1 gives the slice line[from+1:-1] and from = 0
                 raw == IF ve < 0 THEN Slice(line, from + 1, Len(line) - 1) ELSE Slice(line, from + 1, ve)
                 nf == ve + 1 IN
             IF StarCount(raw) > 1 THEN [pos |-> from, values |-> vals, err |-> "ValueError"]
             ELSE LET v2 == Append(vals, ParseValue(raw)) IN
                  IF nf = Len(line) THEN [pos |-> -1, values |-> v2, err |-> ""]
                  ELSE IF nf <= 0 \/ line[nf + 1] # LP THEN [pos |-> nf, values |-> v2, err |-> ""]
                  ELSE Values(fixed, line, nf, v2)

GetAV(fixed, line, from0) ==
   LET ae == Find(line, LP, from0)
       hasaddr == ae > from0
       addr == IF hasaddr THEN Slice(line, from0, ae) ELSE <<>>
       f1 == IF hasaddr THEN ae ELSE from0 IN
   IF ~hasaddr /\ ae < 0 /\ fixed THEN [pos |-> -1, addr |-> addr, hasaddr |-> FALSE, values |-> <<>>, err |-> ""]
   ELSE LET r == Values(fixed, line, f1, <<>>) IN
        [pos |-> IF r.values # <<>> THEN r.pos ELSE -1, addr |-> addr, hasaddr |-> hasaddr, values |-> r.values, err |-> r.err]

\* whole line, bounded number of iterations (each iteration of the repaired algorithm advances the position)
RECURSIVE ParseFrom(_, _, _, _)
ParseFrom(line, pos, items, fuel) ==
   IF pos < 0 THEN [items |-> items, err |-> ""]
   ELSE IF fuel = 0 THEN [items |-> items, err |-> "nontermination"]
   ELSE LET r == GetAV(TRUE, line, pos) IN
        IF r.err # "" THEN [items |-> items, err |-> r.err]
        ELSE ParseFrom(line, r.pos, IF r.values # <<>> THEN Append(items, [addr |-> r.addr, hasaddr |-> r.hasaddr, values |-> r.values]) ELSE items, fuel - 1)
ParseLine(line) == IF \A i \in 1..Len(line) : line[i] = 32 THEN [items |-> <<>>, err |-> ""] ELSE ParseFrom(line, 0, <<>>, Len(line) + 2)
=============================================================================
