----------------------------- MODULE ModeDReader -----------------------------
(***************************************************************************)
(* Implementation-shaped specification of han/dlde.py ModeDReader          *)
(* (repaired tree): a line-oriented state machine over an input buffer.    *)
(*   hunt   hunting for an identification line                             *)
(*   raw    lines collected for the current readout (_raw_data)            *)
(*   buf    unconsumed input (always an unfinished line between calls)     *)
(* read(chunk): extend buffer; when hunting drop everything before the     *)
(* first "/"; pop complete lines (PopLine); in hunt mode a line starting   *)
(* with "/" that is ASCII and matches the identification pattern starts a  *)
(* readout; otherwise lines are collected until a line starting with "!"   *)
(* emits the readout; afterwards consumed lines are dropped and the guard  *)
(* gives up an unfinished readout/line above GuardMax octets.              *)
(***************************************************************************)
EXTENDS DataReadout

M0 == [hunt |-> TRUE, raw |-> <<>>, buf |-> <<>>]

TrimToSlash(b) == LET i == FirstPos(b, SLASH) IN IF i = 0 THEN <<>> ELSE SubSeq(b, i, Len(b))

OnLine(s, line) ==   \* <<new state without buf, emitted (0 or 1 readouts)>>
   IF s.hunt THEN
      IF line[1] = SLASH /\ IsAscii(line) /\ Matches(line)
      THEN <<[s EXCEPT !.hunt = FALSE, !.raw = line], <<>>>>
      ELSE <<s, <<>>>>
   ELSE LET raw2 == s.raw \o line IN
        IF line[1] = BANG THEN <<[s EXCEPT !.hunt = TRUE, !.raw = <<>>], <<raw2>>>>
        ELSE <<[s EXCEPT !.raw = raw2], <<>>>>

\* pop complete lines from b (a fold over the octets: TLC's recursion depth must not depend on the input length)
Lines_(s, b, outs0) ==
   LET r == FoldLeft(LAMBDA acc, x :
                LET cur == Append(acc[2], x) IN
                IF x = LF THEN LET q == OnLine(acc[1], cur) IN <<q[1], <<>>, acc[3] \o q[2]>>
                ELSE <<acc[1], cur, acc[3]>>,
              <<s, <<>>, outs0>>, b)
   IN <<r[1], r[2], r[3]>>        \* <<state, unfinished line, readouts>>

\* guardMax = 8191 in the code
ReadCall(guardMax, s, chunk) ==
   LET b1 == s.buf \o chunk
       b2 == IF s.hunt THEN TrimToSlash(b1) ELSE b1
       r  == Lines_(s, b2, <<>>)
       s2 == r[1]  rest == r[2]
   IN IF Len(s2.raw) + Len(rest) > guardMax
      THEN <<[hunt |-> TRUE, raw |-> <<>>, buf |-> <<>>], r[3]>>       \* give up: drop collected lines and the unfinished line
      ELSE <<[s2 EXCEPT !.buf = rest], r[3]>>

Retained(s) == Len(s.raw) + Len(s.buf)

\* ---- pinned tree (22a5dfc), kept so that TLC's design-level counterexamples for C05/C19 stay reproducible
\* (MC_ModeDReader_pinned.cfg): consumed lines stay in the buffer (position p) unless a call starts in hunt
\* mode; the guard looks at the whole buffer, at the start of the call, and does not clear the collected lines.
\* The position is kept in an extra field of the state record, buf holds consumed lines too.
RECURSIVE LinesP(_, _, _, _)
LinesP(s, b, p, outs) ==
   LET rest == SubSeq(b, p + 1, Len(b)) i == FirstPos(rest, LF) IN
   IF i = 0 THEN <<s, p, outs>>
   ELSE LET r == OnLine(s, SubSeq(rest, 1, i)) IN LinesP(r[1], b, p + i, outs \o r[2])
ReadCallPinned(guardMax, s, p, chunk) ==
   LET g  == Len(s.buf) > guardMax
       h1 == IF g THEN TRUE ELSE s.hunt
       b1 == IF g THEN TrimToSlash(SubSeq(s.buf, p + 1, Len(s.buf))) ELSE s.buf
       p1 == IF g THEN 0 ELSE p
       b2 == b1 \o chunk
       b3 == IF h1 THEN TrimToSlash(SubSeq(b2, p1 + 1, Len(b2))) ELSE b2
       p3 == IF h1 THEN 0 ELSE p1
       r  == LinesP([s EXCEPT !.hunt = h1], b3, p3, <<>>)
   IN <<[r[1] EXCEPT !.buf = b3], r[2], r[3]>>      \* <<state, position, readouts>>
=============================================================================
