------------------------------- MODULE MC_P1Parse -------------------------------
(* Termination of the line parser for ALL lines up to MaxLen over {a, (, ), *}:    *)
(* every iteration of the outer loop moves the scan position strictly forward (or  *)
(* ends), so the loop runs at most Len(line) + 1 times.  With Fixed = FALSE TLC    *)
(* finds the step that returns to position 0 (the infinite loop of the pinned tree).*)
EXTENDS P1Parse
CONSTANTS Fixed, MaxLen
Alphabet == {97, LP, RP, STAR}
VARIABLES line, pos, iter, err
vars == <<line, pos, iter, err>>
Lines == UNION {[1..n -> Alphabet] : n \in 0..MaxLen}
Init == line \in Lines /\ pos = 0 /\ iter = 0 /\ err = ""
Step == /\ pos >= 0 /\ err = "" /\ line # <<>>
        /\ LET r == GetAV(Fixed, line, pos) IN pos' = (IF r.err # "" THEN -1 ELSE r.pos) /\ err' = r.err
        /\ iter' = iter + 1 /\ UNCHANGED line
Spec == Init /\ [][Step]_vars
Progress == [][pos' > pos \/ pos' = -1]_vars
Bounded == iter <= Len(line) + 1
=============================================================================
