------------------------------- MODULE Trace_P1 -------------------------------
(***************************************************************************)
(* Judge recorded executions of the real ModeDReader / DataReadout.        *)
(* trace = [id, canary, mode, plan, runs, nodrift]                         *)
(*   mode "direct": readouts built directly from bytes (C04 only)          *)
(*        "free" | "clean" (C05 plan) | "resync" (C16 plan)                *)
(*   run  = [calls : Seq([chunk, raised, hunt, readouts])]                 *)
(*   readout = [o, valid, vraised, payload, raised]                        *)
(* verdict = [id, ok, fails, drift]                                        *)
(***************************************************************************)
EXTENDS P1Contract, ModeDReader, Json, IOUtils

Fed(run)  == FoldLeft(LAMBDA a, c : a \o c.chunk, <<>>, run.calls)
Outs(run) == FoldLeft(LAMBDA a, c : a \o c.readouts, <<>>, run.calls)
F(c, r, k) == <<[c |-> c, run |-> r, at |-> k]>>
First(S) == CHOOSE k \in S : \A j \in S : k <= j

RaisedFails(t, r) ==
  LET calls == t.runs[r].calls outs == Outs(t.runs[r])
      bc == {i \in 1..Len(calls) : calls[i].raised # ""}
      bf == {k \in 1..Len(outs) : outs[k].raised # "" \/ outs[k].vraised # ""}
  IN (IF bc # {} THEN F("C14.read", r, First(bc)) ELSE <<>>)
     \o (IF bf # {} /\ t.mode # "direct" THEN F("C14.accessor", r, First(bf)) ELSE <<>>)

C04Fails(t, r) ==
  LET outs == Outs(t.runs[r])
      Bad(Cl(_)) == {k \in 1..Len(outs) : ~Cl(outs[k])}
      a == Bad(C04a) b == Bad(C04b) c == Bad(C04c) d == Bad(C04d)
      bl == {k \in 1..Len(outs) : ~outs[k].stable}      \* asked again after the whole stream was fed, the readout object answers differently
  IN (IF bl # {} THEN F("C04.stable", r, First(bl)) ELSE <<>>)
     \o (IF a # {} THEN F("C04.a", r, First(a)) ELSE <<>>) \o (IF b # {} THEN F("C04.b", r, First(b)) ELSE <<>>)
     \o (IF c # {} THEN F("C04.c", r, First(c)) ELSE <<>>) \o (IF d # {} THEN F("C04.d", r, First(d)) ELSE <<>>)

ValidOcts(outs) == LET v == SelectSeq(outs, LAMBDA x : x.valid) IN [i \in 1..Len(v) |-> v[i].o]
AllOcts(outs) == [i \in 1..Len(outs) |-> outs[i].o]

C05Fails(t, r) ==
  LET outs == Outs(t.runs[r]) want == PlanReadouts(t.plan) IN
  IF AllOcts(outs) # want THEN F("C05.deliver", r, 0)
  ELSE IF \E k \in 1..Len(outs) : ~outs[k].stable THEN F("C05.stable", r, 0)
  ELSE IF \E k \in 1..Len(outs) : ~outs[k].valid THEN F("C05.valid", r, 0) ELSE <<>>

C16Fails(t, r) ==
  LET rs == PlanReadouts(t.plan) req == SubSeq(rs, 2, Len(rs)) IN
  IF IsSubseq(req, ValidOcts(Outs(t.runs[r]))) THEN <<>> ELSE F("C16.deliver", r, 0)

PlanFed(t) == \A r \in 1..Len(t.runs) : Fed(t.runs[r]) = PlanWire(t.plan)

DriftOf(t, r) ==
  LET res == FoldLeft(LAMBDA acc, c :
                IF acc[3] # 0 THEN acc
                ELSE LET x == ReadCall(8191, acc[1], c.chunk)
                         same == x[2] = AllOcts(c.readouts)
                         st == x[1].hunt = c.hunt
                     IN <<x[1], acc[2] + 1, IF same /\ st THEN 0 ELSE acc[2] + 1, IF ~same THEN "readouts" ELSE IF ~st THEN "state" ELSE "">>,
              <<M0, 0, 0, "">>, t.runs[r].calls)
  IN IF res[3] # 0 THEN F("impl." \o res[4], r, res[3]) ELSE <<>>

\* growth: end_line / expected_checksum of every observed readout against the implementation-shaped DataReadout spec (DRIFT only)
AccDrift(t, r) ==
  LET outs == Outs(t.runs[r])
      bad == {k \in 1..Len(outs) :
                LET o == outs[k].o x == outs[k].acc e == ExpectedImpl(o) IN
                x.seen /\ EndPos(o) > 0 /\
                ( (e[1] /\ x.exp # e[2])
                  \/ (IsAscii(EndRaw(o)) /\ (x.endraised \/ x.end # EndLineImpl(o)))
                  \/ (~IsAscii(EndRaw(o)) /\ ~x.endraised) )}
  IN IF bad # {} THEN F("impl.accessors", r, First(bad)) ELSE <<>>

Verdict(t) ==
  LET rs == 1..Len(t.runs)
      perRun(Op(_, _)) == FoldLeft(LAMBDA a, r : a \o Op(t, r), <<>>, [r \in rs |-> r])
      base == perRun(RaisedFails) \o perRun(C04Fails)
      extra == IF t.mode = "clean" THEN (IF CleanShape(t.plan) /\ PlanFed(t) THEN perRun(C05Fails) ELSE F("plan", 0, 0))
               ELSE IF t.mode = "resync" THEN (IF ResyncShape(t.plan) /\ PlanFed(t) THEN perRun(C16Fails) ELSE F("plan", 0, 0))
               ELSE <<>>
      fails == base \o extra
      drift == (IF t.nodrift \/ t.mode = "direct" THEN <<>> ELSE perRun(DriftOf)) \o perRun(AccDrift)
  IN [id |-> t.id, ok |-> fails = <<>>, fails |-> fails, drift |-> drift]

Traces == ndJsonDeserialize(IOEnv.TRACE_FILE)
ASSUME JsonSerialize(IOEnv.OUT_FILE, [i \in 1..Len(Traces) |-> Verdict(Traces[i])])
=============================================================================
