---------------------------- MODULE MC_DataReadout ----------------------------
(***************************************************************************)
(* Impl => Contract for one readout: for every readout of a token-level    *)
(* grammar (identification ok/bad x 0..2 data lines incl. a non-ASCII and  *)
(* a '!'-carrying line x checksum absent/correct/lower-case/0000/wrong/    *)
(* non-hex) the implementation-shaped IsValidImpl satisfies the four        *)
(* clauses of C04.                                                         *)
(***************************************************************************)
EXTENDS P1Contract
Idents == { <<47, 65, 66, 67, 53, 105, 100>>, <<47, 65, 66, 67, 53>>, <<47, 97, 66, 67, 53, 120>>, <<47, 65, 66, 67, 120>>,
            <<47, 65, 66, 67, 53, 33, 121>>, <<47, 65, 66, 67, 53, 255>> }
LineSets == { <<>>, << <<49, 40, 50, 41>> >>, << <<>>, <<49, 40, 50, 41>> >>, << <<49, 255>> >>, << <<49, 33, 50>> >>, << <<128>> >> }
Cks == {"ok", "none", "lower", "zero", "off", "nonhex"}
VARIABLES id, ls, ck
Init == id \in Idents /\ ls \in LineSets /\ ck \in Cks
Next == UNCHANGED <<id, ls, ck>>
Spec == Init /\ [][Next]_<<id, ls, ck>>
R == MkReadout(id, ls, ck)
Obs == [o |-> R, valid |-> IsValidImpl(R), vraised |-> "", payload |-> PayloadImpl(R), raised |-> ""]
InvA == C04a(Obs)
InvB == C04b(Obs)
InvC == C04c(Obs)
InvD == C04d(Obs)
\* not vacuous: some case is valid, some invalid because of the checksum only
SomeValid == \E i \in Idents, l \in LineSets : IsValidImpl(MkReadout(i, l, "ok"))
ZeroRejected == \A i \in Idents, l \in LineSets : Crc16Arc(i \o Crlf \o Lines(l) \o <<BANG>>) # 0 => ~IsValidImpl(MkReadout(i, l, "zero"))
ASSUME SomeValid
ASSUME ZeroRejected
=============================================================================
