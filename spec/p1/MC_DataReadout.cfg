SPECIFICATION Spec
INVARIANT InvA
INVARIANT InvB
INVARIANT InvC
INVARIANT InvD
CHECK_DEADLOCK FALSE
