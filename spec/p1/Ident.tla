-------------------------------- MODULE Ident --------------------------------
(***************************************************************************)
(* IEC 62056-21 identification message, as text (sequence of octets):      *)
(*     "/" XXX Z [\W]* Ident CR LF                                          *)
(* XXX  manufacturer id: two upper-case letters and a third letter         *)
(* Z    baud-rate digit                                                    *)
(* \W   escape sequences: backslash + one word character                   *)
(* Ident  at most 16 printable characters                                  *)
(* Matches(line) is a deterministic recogniser: strip the line end, take   *)
(* the maximal prefix of escape pairs, the remainder is the identification *)
(* and must be at most 16 printable characters (an escape pair is itself   *)
(* printable, so taking fewer pairs can only make the remainder longer).   *)
(***************************************************************************)
EXTENDS Integers, Sequences, SequencesExt
CR == 13
LF == 10
SLASH == 47
BANG == 33
BSLASH == 92
IsUpper(c)  == c \in 65..90
IsLetter(c) == c \in 65..90 \/ c \in 97..122
IsDigit(c)  == c \in 48..57
IsWord(c)   == IsLetter(c) \/ IsDigit(c) \/ c = 95
IsPrint(c)  == c \in 32..126
IsSpace(c)  == c \in {9, 10, 11, 12, 13, 32, 28, 29, 30, 31}     \* what str.strip() removes (ASCII range)
IsBSpace(c) == c \in {9, 10, 11, 12, 13, 32}                     \* what bytes.strip() removes
AllPrint(s) == \A i \in 1..Len(s) : IsPrint(s[i])
IsAscii(s)  == \A i \in 1..Len(s) : s[i] < 128

RECURSIVE LStripS(_), RStripS(_), LStripB(_), RStripB(_)
LStripS(s) == IF s # <<>> /\ IsSpace(s[1]) THEN LStripS(Tail(s)) ELSE s
RStripS(s) == IF s # <<>> /\ IsSpace(s[Len(s)]) THEN RStripS(SubSeq(s, 1, Len(s) - 1)) ELSE s
LStripB(s) == IF s # <<>> /\ IsBSpace(s[1]) THEN LStripB(Tail(s)) ELSE s
RStripB(s) == IF s # <<>> /\ IsBSpace(s[Len(s)]) THEN RStripB(SubSeq(s, 1, Len(s) - 1)) ELSE s
Strip(s)  == RStripS(LStripS(s))
BStrip(s) == RStripB(LStripB(s))

\* line end forms the pattern tolerates after the identification: "", LF, CR LF, CR LF LF
EndingLen(s) == LET n == Len(s) IN
   IF n >= 3 /\ s[n - 2] = CR /\ s[n - 1] = LF /\ s[n] = LF THEN 3
   ELSE IF n >= 2 /\ s[n - 1] = CR /\ s[n] = LF THEN 2
   ELSE IF n >= 1 /\ s[n] = LF THEN 1 ELSE 0

RECURSIVE EscPairs(_, _)
EscPairs(b, k) == IF Len(b) >= 2 * k + 2 /\ b[2 * k + 1] = BSLASH /\ IsWord(b[2 * k + 2]) THEN EscPairs(b, k + 1) ELSE k

Body(line) == SubSeq(line, 6, Len(line) - EndingLen(line))
Matches(line) ==
   /\ Len(line) >= 5
   /\ line[1] = SLASH /\ IsUpper(line[2]) /\ IsUpper(line[3]) /\ IsLetter(line[4]) /\ IsDigit(line[5])
   /\ LET b == Body(line) IN AllPrint(b) /\ Len(b) - 2 * EscPairs(b, 0) <= 16
ManId(line) == SubSeq(line, 2, 4)
IdPart(line) == LET b == Body(line) IN SubSeq(b, 2 * EscPairs(b, 0) + 1, Len(b))      \* <<>> = no identification
=============================================================================
