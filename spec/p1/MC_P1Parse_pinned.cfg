SPECIFICATION Spec
CONSTANTS
 Fixed = FALSE
 MaxLen = 7
PROPERTY Progress
INVARIANT Bounded
CHECK_DEADLOCK FALSE
