SPECIFICATION Spec
CONSTANTS
 MaxSegs = 4
 GuardMax = 14
 Pinned = TRUE
INVARIANT CleanDelivered
INVARIANT Resync
INVARIANT BufBounded
CHECK_DEADLOCK FALSE
