SPECIFICATION Spec
CONSTANTS
 Fixed = TRUE
 MaxLen = 7
PROPERTY Progress
INVARIANT Bounded
CHECK_DEADLOCK FALSE
