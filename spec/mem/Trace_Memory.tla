----------------------------- MODULE Trace_Memory -----------------------------
(***************************************************************************)
(* C19: memory retained by a reader after a read() call is bounded by a    *)
(* constant plus the size of the last chunk, independently of how much has *)
(* been fed before.                                                        *)
(* trace = [id, canary, reader, pattern, samples : Seq([fed, chunk, deep])]*)
(*   deep = deep size of the reader object after the call (bytes)          *)
(* Clauses: "bound"  deep <= Const + 2 * chunk        for every sample     *)
(*          "trend"  the maximum over the last third of the run does not   *)
(*                   exceed the maximum over the first third by more than  *)
(*                   Const/2 (growth that has not yet hit the bound)       *)
(* Const = 64 KiB: a few maximum-size messages (2047 / 8191 octets) plus   *)
(* Python object overhead.                                                 *)
(***************************************************************************)
EXTENDS Integers, Sequences, SequencesExt, TLC, Json, IOUtils
Const == 65536
MaxOf(s) == FoldLeft(LAMBDA a, x : IF x > a THEN x ELSE a, 0, s)
Verdict(t) ==
  LET n == Len(t.samples)
      bad == {i \in 1..n : t.samples[i].deep > Const + 2 * t.samples[i].chunk}
      third == n \div 3
      first == MaxOf([i \in 1..third |-> t.samples[i].deep - 2 * t.samples[i].chunk])
      last  == MaxOf([i \in 1..third |-> t.samples[n - third + i].deep - 2 * t.samples[n - third + i].chunk])
  IN IF bad # {} THEN [id |-> t.id, ok |-> FALSE, clause |-> "bound", at |-> CHOOSE i \in bad : \A j \in bad : i <= j]
     ELSE IF third >= 2 /\ last > first + (Const \div 2) THEN [id |-> t.id, ok |-> FALSE, clause |-> "trend", at |-> n]
     ELSE [id |-> t.id, ok |-> TRUE, clause |-> "", at |-> 0]
Traces == ndJsonDeserialize(IOEnv.TRACE_FILE)
ASSUME JsonSerialize(IOEnv.OUT_FILE, [i \in 1..Len(Traces) |-> Verdict(Traces[i])])
=============================================================================
