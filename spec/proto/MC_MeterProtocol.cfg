SPECIFICATION Spec
CONSTANTS MaxCalls = 3
INVARIANT Conforms
CHECK_DEADLOCK FALSE
