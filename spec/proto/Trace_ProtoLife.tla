--------------------------- MODULE Trace_ProtoLife ---------------------------
(* Judge recorded callback histories of the real protocol classes.           *)
(* trace = [id, canary, variant, ops]; op = [op, closeRaises, ret, done,     *)
(*   tref, closes] with the values observed after the callback returned.     *)
(* Clauses: life.ret / life.done / life.tref / life.closes (observed # spec), *)
(* life.contract (a contract predicate false in the observed state).         *)
EXTENDS ProtoLife, TLC, Json, IOUtils, SequencesExt
Obs(o) == [phase |-> "?", tref |-> o.tref, closes |-> o.closes, done |-> o.done]
Verdict(t) ==
  LET r == FoldLeft(LAMBDA acc, i :
              LET o == t.ops[i]
                  st == Step(acc[1], o)
                  s2 == st[1]
                  env == acc[3] /\ EnvAllows(acc[1], o)
                  bad == IF o.ret # st[2] THEN "life.ret"
                         ELSE IF o.done # s2.done THEN "life.done"
                         ELSE IF o.tref # s2.tref THEN "life.tref"
                         ELSE IF o.closes # s2.closes THEN "life.closes"
                         ELSE IF ~(DoneIffLost(s2) /\ NoCloseWhileUp(s2) /\ (env => ReleasedAfterLost(s2))) THEN "life.contract"
                         ELSE ""
              IN <<s2, IF bad # "" THEN Append(acc[2], [c |-> bad, at |-> i]) ELSE acc[2], env>>,
            <<S0, <<>>, TRUE>>, [i \in 1..Len(t.ops) |-> i])
  IN [id |-> t.id, ok |-> r[2] = <<>>, fails |-> r[2]]
Traces == ndJsonDeserialize(IOEnv.TRACE_FILE)
ASSUME JsonSerialize(IOEnv.OUT_FILE, [i \in 1..Len(Traces) |-> Verdict(Traces[i])])
=============================================================================
