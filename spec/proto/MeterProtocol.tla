----------------------------- MODULE MeterProtocol -----------------------------
(***************************************************************************)
(* Implementation-shaped data_received / message_received of               *)
(* han/meter_connection.py.  outs[r] = messages reader r WOULD return for   *)
(* this chunk.  Result: <<selected', candidates', readers fed (in order),  *)
(* queue delta>>.                                                          *)
(***************************************************************************)
EXTENDS ProtoContract

Enqueue(variant, msgs) ==     \* message_received for each message, in order
   IF variant = "payload" THEN LET k == SelectSeq(msgs, LAMBDA m : m.valid /\ m.pk = "data") IN [i \in 1..Len(k) |-> k[i].pid]
   ELSE [i \in 1..Len(msgs) |-> msgs[i].pid]

DataReceived(variant, sel, cands, outs) ==
   IF sel # 0 THEN <<sel, cands, <<sel>>, Enqueue(variant, outs[sel])>>
   ELSE LET \* feed candidates in order until one has a valid message
            r == FoldLeft(LAMBDA acc, c : IF acc[1] # 0 THEN acc
                                           ELSE IF HasValid(outs[c]) THEN <<c, Append(acc[2], c)>> ELSE <<0, Append(acc[2], c)>>,
                          <<0, <<>>>>, cands)
        IN IF r[1] # 0 THEN <<r[1], <<>>, r[2], Enqueue(variant, outs[r[1]])>> ELSE <<0, cands, r[2], <<>>>>
=============================================================================
