---------------------------- MODULE MC_MeterProtocol ----------------------------
(* Impl => Contract: 2 candidate readers, up to 2 messages per reader and call   *)
(* (valid/invalid x payload none/empty/data), MaxCalls calls, both variants.     *)
EXTENDS MeterProtocol, TLC
CONSTANTS MaxCalls
Kinds == {<<v, p>> : v \in BOOLEAN, p \in {"none", "empty", "data"}}
Msg(k, id) == [valid |-> k[1], pk |-> k[2], pid |-> id]
MsgSeqs(base) == {<<>>} \cup {<<Msg(k, base + 1)>> : k \in Kinds} \cup {<<Msg(k1, base + 1), Msg(k2, base + 2)>> : k1 \in Kinds, k2 \in Kinds}
VARIABLES variant, sel, cands, ncall, csel, ok
vars == <<variant, sel, cands, ncall, csel, ok>>
Init == variant \in {"payload", "message"} /\ sel = 0 /\ cands = <<1, 2>> /\ ncall = 0 /\ csel = 0 /\ ok = TRUE
Call == /\ ncall < MaxCalls /\ ok
        /\ \E o1 \in MsgSeqs(10), o2 \in MsgSeqs(20) :
             LET outs == <<o1, o2>>
                 r == DataReceived(variant, sel, cands, outs)
                 call == [fed |-> [i \in 1..Len(r[3]) |-> [reader |-> r[3][i], raised |-> "", msgs |-> outs[r[3][i]]]], delta |-> r[4]]
                 c == Step(variant, csel, call)
             IN /\ sel' = r[1] /\ cands' = r[2] /\ csel' = c[1]
                /\ ok' = (c[3] = "" /\ c[2] = r[4] /\ c[1] = r[1])
        /\ ncall' = ncall + 1 /\ UNCHANGED variant
Next == Call
Spec == Init /\ [][Next]_vars
Conforms == ok
=============================================================================
