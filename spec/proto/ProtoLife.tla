------------------------------ MODULE ProtoLife ------------------------------
(***************************************************************************)
(* Lifecycle of SmartMeterBaseProtocol (han/meter_connection.py) as an      *)
(* asyncio transport drives it: connection_made, data_received,             *)
(* eof_received, connection_lost, and the `done` awaitable the              *)
(* ConnectionManager waits on.  Growth beyond the listed properties         *)
(* (DESIGN §12): C17's "a lost connection leads to a new attempt" rests on  *)
(* `done` completing exactly when the connection is lost.                   *)
(*                                                                         *)
(* One action per callback.  Step(s, ev) is the transition as a function so *)
(* that the model (MC_ProtoLife) and the trace judge (Trace_ProtoLife) use  *)
(* the same definition.  state = [phase, tref, closes, done]:               *)
(*   phase  "new" | "up" | "down"                                          *)
(*   tref   the protocol still holds a transport reference                  *)
(*   closes number of transport.close() calls the protocol has made         *)
(*   done   the done future is completed                                    *)
(* ev = [op, closeRaises]; result <<state', ret>> where ret is what the     *)
(* caller observes: "" (None), "false", or the name of the exception.       *)
(*                                                                         *)
(* Deliberate deviations of the code, named rather than idealised:          *)
(*   LostAgain  a second connection_lost() closes a still-referenced        *)
(*              transport again and then raises InvalidStateError (asyncio  *)
(*              never calls it twice);                                      *)
(*   a transport whose close() raises stays referenced, done still set.     *)
(***************************************************************************)
EXTENDS Naturals, Sequences

S0 == [phase |-> "new", tref |-> FALSE, closes |-> 0, done |-> FALSE]

Made(s)  == <<[s EXCEPT !.phase = IF s.phase = "new" THEN "up" ELSE s.phase, !.tref = TRUE], "">>
Data(s)  == <<s, "">>
Eof(s)   == <<s, "false">>          \* False = "close the transport"
Lost(s, closeRaises) ==
   LET closes == IF s.tref THEN s.closes + 1 ELSE s.closes
       tref == s.tref /\ closeRaises
   IN IF s.done
        THEN <<[s EXCEPT !.closes = closes, !.tref = tref], "InvalidStateError">>     \* LostAgain
        ELSE <<[phase |-> "down", tref |-> tref, closes |-> closes, done |-> TRUE], "">>

Step(s, ev) == CASE ev.op = "made" -> Made(s)
                 [] ev.op = "data" -> Data(s)
                 [] ev.op = "eof"  -> Eof(s)
                 [] ev.op = "lost" -> Lost(s, ev.closeRaises)

(* What asyncio guarantees about the order of callbacks (the environment). *)
EnvAllows(s, ev) == CASE ev.op = "made" -> s.phase = "new"
                      [] ev.op = "data" -> s.phase = "up"
                      [] ev.op = "eof"  -> s.phase = "up"
                      [] ev.op = "lost" -> s.phase = "up"

(* Contract (what users of `done` rely on), over any callback order at all. *)
DoneIffLost(s)       == s.done <=> s.phase = "down"
NoCloseWhileUp(s)    == s.phase # "down" => s.closes = 0
ReleasedAfterLost(s) == s.phase = "down" /\ s.tref => s.closes >= 1     \* kept only if close() raised
=============================================================================
