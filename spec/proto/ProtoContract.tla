----------------------------- MODULE ProtoContract -----------------------------
(***************************************************************************)
(* Contract of SmartMeterMessagePayloadProtocol / SmartMeterMessageProtocol *)
(* (C13), over what is observable at the surface: per data_received() call  *)
(*   fed    which candidate readers were given the chunk and the messages   *)
(*          each returned: [reader, raised, msgs], msg = [valid, pk, pid]   *)
(*          pk \in {"none","empty","data"} (payload None / empty / non-empty)*)
(*          pid = identity of the payload content (payload variant) or of   *)
(*          the message object (message variant)                            *)
(*   delta  what was put on the queue during the call                       *)
(* The selected reader is the first candidate, in list order, that returns  *)
(* a valid message, in the first call in which any candidate does.          *)
(***************************************************************************)
EXTENDS Integers, Sequences, SequencesExt, FiniteSets

HasValid(msgs) == \E i \in 1..Len(msgs) : msgs[i].valid
MsgsOf(call, r) == LET idx == {i \in 1..Len(call.fed) : call.fed[i].reader = r} IN
                   IF idx = {} THEN <<>> ELSE call.fed[CHOOSE i \in idx : TRUE].msgs
WasFed(call, r) == \E i \in 1..Len(call.fed) : call.fed[i].reader = r

Forward(variant, msgs) ==
   LET keep == IF variant = "payload" THEN SelectSeq(msgs, LAMBDA m : m.valid /\ m.pk = "data") ELSE msgs
   IN [i \in 1..Len(keep) |-> keep[i].pid]

\* one step of the contract: <<selected', expected delta, failing clause or "">>
Step(variant, sel, call) ==
   IF sel = 0 THEN
      LET V == {call.fed[i].reader : i \in {j \in 1..Len(call.fed) : HasValid(call.fed[j].msgs)}} IN
      IF V = {} THEN <<0, <<>>, "">>
      ELSE LET s == CHOOSE r \in V : \A q \in V : r <= q IN <<s, Forward(variant, MsgsOf(call, s)), "">>
   ELSE IF ~WasFed(call, sel) THEN <<sel, <<>>, "C13.selected_not_fed">>
   ELSE <<sel, Forward(variant, MsgsOf(call, sel)), "">>
=============================================================================
