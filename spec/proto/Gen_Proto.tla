------------------------------- MODULE Gen_Proto -------------------------------
(* spec -> code: two-call behaviours of the implementation-shaped protocol spec  *)
(* (every first call over the full per-call message space, second call from a    *)
(* representative set), with the queue deltas and fed readers the spec expects.  *)
EXTENDS MeterProtocol, TLC, Json, IOUtils
Kinds == {<<v, p>> : v \in BOOLEAN, p \in {"none", "empty", "data"}}
Msg(k, id) == [valid |-> k[1], pk |-> k[2], pid |-> id]
MsgSeqs(base) == {<<>>} \cup {<<Msg(k, base + 1)>> : k \in Kinds} \cup {<<Msg(k1, base + 1), Msg(k2, base + 2)>> : k1 \in Kinds, k2 \in Kinds}
Second == { <<<<>>, <<>>>>, <<<<Msg(<<TRUE, "data">>, 31)>>, <<>>>>, <<<<>>, <<Msg(<<TRUE, "data">>, 41)>>>>,
            <<<<Msg(<<FALSE, "data">>, 31), Msg(<<TRUE, "empty">>, 32)>>, <<Msg(<<TRUE, "data">>, 41), Msg(<<FALSE, "none">>, 42)>>>>,
            <<<<Msg(<<TRUE, "none">>, 31)>>, <<Msg(<<TRUE, "data">>, 41)>>>> }
Beh(variant, o1, o2, s) ==
   LET a == DataReceived(variant, 0, <<1, 2>>, <<o1, o2>>)
       b == DataReceived(variant, a[1], a[2], s)
   IN [variant |-> variant, calls |-> << [outs |-> <<o1, o2>>, fed |-> a[3], delta |-> a[4], sel |-> a[1]],
                                        [outs |-> s, fed |-> b[3], delta |-> b[4], sel |-> b[1]] >>]
ASSUME JsonSerialize(IOEnv.OUT_FILE,
         SetToSeq({Beh(v, o1, o2, s) : v \in {"payload", "message"}, o1 \in MsgSeqs(10), o2 \in MsgSeqs(20), s \in Second}))
=============================================================================
