---------------------------- MODULE MC_ProtoLife ----------------------------
(* Every callback order of length <= MaxOps (not only the orders asyncio     *)
(* produces): the contract of ProtoLife holds in every state; under asyncio's *)
(* own ordering no callback raises and close() is called at most once.       *)
EXTENDS ProtoLife, TLC
CONSTANTS MaxOps
VARIABLES s, n, env, lastRet
vars == <<s, n, env, lastRet>>
Evs == {[op |-> o, closeRaises |-> r] : o \in {"made", "data", "eof", "lost"}, r \in BOOLEAN}
Init == s = S0 /\ n = 0 /\ env = TRUE /\ lastRet = ""
Do(ev) == /\ n < MaxOps
          /\ LET r == Step(s, ev) IN s' = r[1] /\ lastRet' = r[2]
          /\ env' = (env /\ EnvAllows(s, ev))
          /\ n' = n + 1
MadeA == \E ev \in Evs : ev.op = "made" /\ Do(ev)
DataA == \E ev \in Evs : ev.op = "data" /\ Do(ev)
EofA  == \E ev \in Evs : ev.op = "eof" /\ Do(ev)
LostA == \E ev \in Evs : ev.op = "lost" /\ Do(ev)
Next == MadeA \/ DataA \/ EofA \/ LostA
Spec == Init /\ [][Next]_vars
InvDoneIffLost == DoneIffLost(s)
InvNoCloseWhileUp == NoCloseWhileUp(s)
InvReleased == env => ReleasedAfterLost(s)     \* made-after-lost (never done by asyncio) re-attaches a transport
InvEnvQuiet == env => (lastRet \in {"", "false"} /\ s.closes <= 1)
DoneStable == [][s.done => s'.done]_vars
=============================================================================
