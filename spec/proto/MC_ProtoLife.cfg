SPECIFICATION Spec
CONSTANTS MaxOps = 6
INVARIANT InvDoneIffLost
INVARIANT InvNoCloseWhileUp
INVARIANT InvReleased
INVARIANT InvEnvQuiet
PROPERTY DoneStable
CHECK_DEADLOCK FALSE
