---------------------------- MODULE Trace_Pipeline ----------------------------
(* Growth (DESIGN §12): factory -> protocol -> queue.  The same clean stream,   *)
(* cut the same way, is fed to a connection made with the message protocol and  *)
(* to one made with the payload protocol (both through the library's connection *)
(* factory with its default readers).  Per data_received() call:                *)
(*   msgs  what the message protocol enqueued, as [valid, pk, pid]              *)
(*   payq  what the payload protocol enqueued, as payload ids                   *)
(* Contract (ProtoContract!Forward): payq = the non-empty payloads of the valid *)
(* messages among msgs, in order - in every call.                               *)
EXTENDS ProtoContract, TLC, Json, IOUtils
Verdict(t) ==
  LET bad == {i \in 1..Len(t.calls) : t.calls[i].payq # Forward("payload", t.calls[i].msgs)}
  IN [id |-> t.id, ok |-> bad = {}, fails |-> IF bad = {} THEN <<>> ELSE <<[c |-> "pipe.payload_queue", at |-> CHOOSE i \in bad : \A j \in bad : i <= j]>>]
Traces == ndJsonDeserialize(IOEnv.TRACE_FILE)
ASSUME JsonSerialize(IOEnv.OUT_FILE, [i \in 1..Len(Traces) |-> Verdict(Traces[i])])
=============================================================================
