------------------------------ MODULE Trace_Proto ------------------------------
(* Judge recorded data_received() histories of the real protocol classes.       *)
(* trace = [id, canary, variant, mode, calls, plan_payloads]                    *)
(*   call = [fed, delta, raised]                                                *)
(*   mode "clean": the whole queue must equal plan_payloads (end-to-end clause) *)
EXTENDS ProtoContract, TLC, Json, IOUtils
Verdict(t) ==
  LET r == FoldLeft(LAMBDA acc, i :
              LET call == t.calls[i]
                  c == Step(t.variant, acc[1], call)
                  bad14 == IF call.raised # "" THEN "C14.data_received"
                           ELSE IF \E k \in 1..Len(call.fed) : call.fed[k].raised # "" THEN "C14.read" ELSE ""
                  \* the queue clause is judged also when the call raised: messages lost to an exception are lost all the same
                  bad13 == IF (\E k \in 1..Len(call.fed) : call.fed[k].raised # "") THEN ""
                           ELSE IF c[3] # "" THEN c[3]
                           ELSE IF call.delta # c[2] THEN
                                (IF acc[1] = 0 /\ c[1] = 0 THEN "C13.enqueued_before_selection" ELSE "C13.delta")
                           ELSE ""
                  a1 == IF bad14 # "" THEN Append(acc[2], [c |-> bad14, at |-> i]) ELSE acc[2]
                  a2 == IF bad13 # "" THEN Append(a1, [c |-> bad13, at |-> i]) ELSE a1
              IN <<c[1], a2, acc[3] \o call.delta>>,
            <<0, <<>>, <<>>>>, [i \in 1..Len(t.calls) |-> i])
      e2e == IF t.mode = "clean" /\ r[3] # t.plan_payloads THEN <<[c |-> "C13.end_to_end", at |-> 0]>>
             \* message protocol on a clean stream: every planned message is valid and arrives from the selecting chunk on, so none may be missing
             ELSE IF t.mode = "clean_count" /\ Len(r[3]) < t.plan_count THEN <<[c |-> "C13.end_to_end", at |-> 0]>> ELSE <<>>
      fails == r[2] \o e2e
  IN [id |-> t.id, ok |-> fails = <<>>, fails |-> fails]
Traces == ndJsonDeserialize(IOEnv.TRACE_FILE)
ASSUME JsonSerialize(IOEnv.OUT_FILE, [i \in 1..Len(Traces) |-> Verdict(Traces[i])])
=============================================================================
