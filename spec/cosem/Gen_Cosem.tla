------------------------------- MODULE Gen_Cosem -------------------------------
(* spec -> code: every message of the chosen family (GEN_SET) with its reference encoding. *)
EXTENDS CosemLists, Json, IOUtils
Which == IF "GEN_SET" \in DOMAIN IOEnv THEN IOEnv.GEN_SET ELSE "aidon"
Chosen == IF Which = "aidon" THEN AidonMsgs_(0) ELSE IF Which = "kaifa" THEN KaifaMsgs_(0) ELSE IF Which = "kamstrup" THEN KamMsgs_(0) ELSE DtAll_(0)
ASSUME \A m \in Chosen : MsgOk(m)
ASSUME JsonSerialize(IOEnv.OUT_FILE, SetToSeq({[msg |-> m, bytes |-> Encode(m)] : m \in Chosen}))
=============================================================================
