--------------------------------- MODULE Cosem ---------------------------------
(***************************************************************************)
(* DLMS/COSEM push lists of Aidon, Kaifa and Kamstrup meters (C07-C10):    *)
(* abstract message, reference A-XDR encoder, and Meaning = the dictionary *)
(* a decoder must return.                                                  *)
(*                                                                         *)
(* msg  = [meter, form \in {"frame","body"}, layout, invoke, apdu, count,  *)
(*         elems]   (count = announced element count of a Kamstrup list)   *)
(*   apdu  = [kind \in {"null","tagged","untagged"}, dt]  (frames only)    *)
(*   layout: "pos" | "obis" (Kaifa);  "list" otherwise                     *)
(* elem = [obis : 6 octets or <<>>, t \in {"u32","i16","u16","vstr","ostr",*)
(*         "dt"}, hi, lo (16-bit limbs; 16-bit types use lo), s (string    *)
(*         octets), dt, exp (Aidon scaler), unit, nulls (Kamstrup padding)]*)
(* dt   = [y, mo, d, dow, h, mi, s, hs, dev (raw 0..65535), st]            *)
(*                                                                         *)
(* entry = [known, name, nametext, k \in {"num","text","dt"}, neg, int,    *)
(*          frac, t, dt]; a dictionary is a sequence of entries with       *)
(* distinct names (a later Put replaces an earlier one, as dict[...] = v). *)
(***************************************************************************)
EXTENDS Decimal, ObisMap, TLC

\* ------------------------------------------------------------------ date-time (C10)
Dt12(dt) == <<dt.y \div 256, dt.y % 256, dt.mo, dt.d, dt.dow, dt.h, dt.mi, dt.s, dt.hs, dt.dev \div 256, dt.dev % 256, dt.st>>
DtMeaning(dt) == LET sdev == IF dt.dev >= 32768 THEN dt.dev - 65536 ELSE dt.dev IN
   <<dt.y, dt.mo, dt.d, dt.h, dt.mi, dt.s, IF dt.hs = 255 THEN 0 ELSE dt.hs * 10000, dt.dev # 32768, IF dt.dev = 32768 THEN 0 ELSE 0 - sdev>>
Leap(y) == (y % 4 = 0 /\ y % 100 # 0) \/ y % 400 = 0
DaysIn(y, m) == IF m = 2 THEN (IF Leap(y) THEN 29 ELSE 28) ELSE IF m \in {4, 6, 9, 11} THEN 30 ELSE 31
DtInDomain(dt) == /\ dt.y \in 1..9999 /\ dt.mo \in 1..12 /\ dt.d \in 1..DaysIn(dt.y, dt.mo)
                  /\ dt.h \in 0..23 /\ dt.mi \in 0..59 /\ dt.s \in 0..59 /\ (dt.hs \in 0..99 \/ dt.hs = 255)
                  /\ dt.dow \in 0..255 /\ dt.st \in 0..255
                  /\ (dt.dev = 32768 \/ dt.dev \in 0..720 \/ dt.dev \in (65536 - 720)..65535)

\* ------------------------------------------------------------------ A-XDR pieces
U32(hi, lo) == <<6, hi \div 256, hi % 256, lo \div 256, lo % 256>>
B16(tag, raw) == <<tag, raw \div 256, raw % 256>>
VStr(s) == <<10, Len(s)>> \o s
OStr(s) == <<9, Len(s)>> \o s
ObisOct(o) == <<9, 6>> \o o
DtOct(dt) == <<9, 12>> \o Dt12(dt)
Exp8(e) == IF e < 0 THEN 256 + e ELSE e
ScalerUnit(e, u) == <<2, 2, 15, Exp8(e), 22, u>>
Nulls(n) == [i \in 1..n |-> 0]
ValueOct(el) == IF el.t = "u32" THEN U32(el.hi, el.lo)
                ELSE IF el.t = "i16" THEN B16(16, el.lo) ELSE IF el.t = "u16" THEN B16(18, el.lo)
                ELSE IF el.t = "vstr" THEN VStr(el.s) ELSE IF el.t = "ostr" THEN OStr(el.s) ELSE DtOct(el.dt)
IsNumT(t) == t \in {"u32", "i16", "u16"}

AidonElem(el) == <<2, IF IsNumT(el.t) THEN 3 ELSE 2>> \o ObisOct(el.obis) \o ValueOct(el)
                 \o (IF IsNumT(el.t) THEN ScalerUnit(el.exp, el.unit) ELSE <<>>)
Cat(f(_), seq) == FoldLeft(LAMBDA a, x : a \o f(x), <<>>, seq)
KaifaObisElem(el) == ObisOct(el.obis) \o ValueOct(el)
KamElem(el) == (IF el.obis # <<>> THEN ObisOct(el.obis) ELSE <<>>) \o ValueOct(el) \o Nulls(el.nulls)
Body(m) == IF m.meter = "aidon" THEN <<1, Len(m.elems)>> \o Cat(AidonElem, m.elems)
           ELSE IF m.meter = "kaifa" THEN
                (IF m.layout = "pos" THEN <<2, Len(m.elems)>> \o Cat(ValueOct, m.elems)
                 ELSE <<2, 2 * Len(m.elems)>> \o Cat(KaifaObisElem, m.elems))
           ELSE <<2, m.count>> \o Cat(KamElem, m.elems)      \* the announced element count is not looked at by any decoder
ApduDt(a) == IF a.kind = "null" THEN <<0>> ELSE IF a.kind = "tagged" THEN DtOct(a.dt) ELSE <<12>> \o Dt12(a.dt)
Encode(m) == IF m.form = "body" THEN Body(m) ELSE <<230, 231, 0, 15>> \o m.invoke \o ApduDt(m.apdu) \o Body(m)

\* ------------------------------------------------------------------ dictionaries
E0 == [known |-> TRUE, name |-> "", nametext |-> <<>>, k |-> "text", neg |-> FALSE, int |-> <<>>, frac |-> <<>>, t |-> <<>>, dt |-> <<>>]
Named(cde) == IF Known(cde) THEN [E0 EXCEPT !.name = NameOf(cde)]
              ELSE [E0 EXCEPT !.known = FALSE, !.nametext = [i \in 1..Len(NatDigits(cde[1])) |-> 48 + NatDigits(cde[1])[i]] \o <<46>>
                                  \o [i \in 1..Len(NatDigits(cde[2])) |-> 48 + NatDigits(cde[2])[i]] \o <<46>>
                                  \o [i \in 1..Len(NatDigits(cde[3])) |-> 48 + NatDigits(cde[3])[i]]]
Key(e) == <<e.known, e.name, e.nametext>>
Put(d, e) == SelectSeq(d, LAMBDA x : Key(x) # Key(e)) \o <<e>>
TextE(b, s) == [b EXCEPT !.k = "text", !.t = s]
DtE(b, dt) == [b EXCEPT !.k = "dt", !.dt = DtMeaning(dt)]
NumE(b, n) == [b EXCEPT !.k = "num", !.neg = n.neg, !.int = n.int, !.frac = n.frac]
Field(name) == [E0 EXCEPT !.name = name]
RegDigits(el) == IF el.t = "u32" THEN U32Digits(el.hi, el.lo)
                 ELSE IF el.t = "i16" /\ el.lo >= 32768 THEN NatDigits(65536 - el.lo) ELSE NatDigits(el.lo)
RegNeg(el) == el.t = "i16" /\ el.lo >= 32768
Cde(el) == <<el.obis[3], el.obis[4], el.obis[5]>>

\* ---- Aidon (C07): register x 10^scaler, text verbatim, clock element
AidonEntry(el) == LET b == Named(Cde(el)) IN
   IF el.t = "vstr" THEN TextE(b, el.s) ELSE IF el.t = "dt" THEN DtE(b, el.dt)
   ELSE NumE(b, Num(RegNeg(el), RegDigits(el), el.exp))
AidonMeaning(m) == FoldLeft(LAMBDA d, el : Put(d, AidonEntry(el)), <<TextE(Field("meter_manufacturer"), <<65, 105, 100, 111, 110>>)>>, m.elems)

\* ---- Kaifa (C08)
KaifaFull == <<"list_ver_id", "meter_id", "meter_type", "active_power_import", "active_power_export", "reactive_power_import",
               "reactive_power_export", "current_l1", "current_l2", "current_l3", "voltage_l1", "voltage_l2", "voltage_l3",
               "meter_datetime", "active_power_import_total", "active_power_export_total", "reactive_power_import_total",
               "reactive_power_export_total">>
Pick(idx) == [i \in 1..Len(idx) |-> KaifaFull[idx[i]]]
KaifaLayout(n) == IF n = 1 THEN <<"active_power_import">>
                  ELSE IF n = 9 THEN Pick(<<1, 2, 3, 4, 5, 6, 7, 8, 11>>)
                  ELSE IF n = 13 THEN Pick(<<1, 2, 3, 4, 5, 6, 7, 8, 9, 10, 11, 12, 13>>)
                  ELSE IF n = 14 THEN Pick(<<1, 2, 3, 4, 5, 6, 7, 8, 11, 14, 15, 16, 17, 18>>)
                  ELSE KaifaFull
KaifaScale(name) == IF name \in {"current_l1", "current_l2", "current_l3"} THEN -3
                    ELSE IF name \in {"voltage_l1", "voltage_l2", "voltage_l3"} THEN -1 ELSE 0
KaifaVal(b, name, el) == IF el.t = "dt" THEN DtE(b, el.dt) ELSE IF el.t \in {"ostr", "vstr"} THEN TextE(b, el.s)
                         ELSE NumE(b, Num(RegNeg(el), RegDigits(el), KaifaScale(name)))
KaifaManu == TextE(Field("meter_manufacturer"), <<75, 97, 105, 102, 97>>)
KaifaMeaning(m) ==
   IF m.layout = "pos" THEN
      LET names == KaifaLayout(Len(m.elems))
          d0 == IF m.form = "frame" THEN <<KaifaManu, DtE(Field("meter_datetime"), m.apdu.dt)>> ELSE <<KaifaManu>>
      IN FoldLeft(LAMBDA d, i : Put(d, KaifaVal(Field(names[i]), names[i], m.elems[i])), d0, [i \in 1..Len(m.elems) |-> i])
   ELSE FoldLeft(LAMBDA d, el : LET b == Named(Cde(el)) IN Put(d, KaifaVal(b, IF b.known THEN b.name ELSE "", el)), <<KaifaManu>>, m.elems)

\* ---- Kamstrup (C09)
KamCurrents == {<<1, 1, 31, 7, 0, 255>>, <<1, 1, 51, 7, 0, 255>>, <<1, 1, 71, 7, 0, 255>>}
KamEnergies == {<<1, 1, 1, 8, 0, 255>>, <<1, 1, 2, 8, 0, 255>>, <<1, 1, 3, 8, 0, 255>>, <<1, 1, 4, 8, 0, 255>>}
KamTypeObis == <<1, 1, 96, 1, 1, 255>>
IsCt(m) == \E i \in 1..Len(m.elems) : /\ m.elems[i].obis = KamTypeObis /\ m.elems[i].t = "vstr" /\ Len(m.elems[i].s) >= 3
                                       /\ SubSeq(m.elems[i].s, 1, 3) = <<54, 56, 53>>
           /\ \A j \in 1..(i - 1) : m.elems[j].obis # KamTypeObis          \* the first meter-type element decides
KamScale(m, el) == IF el.obis \in KamCurrents THEN (IF IsCt(m) THEN -3 ELSE -2) ELSE IF el.obis \in KamEnergies THEN 1 ELSE 0
KamEntry(m, el) == LET b == IF el.obis = <<>> THEN Field("list_ver_id") ELSE Named(Cde(el)) IN
   IF el.t = "dt" THEN DtE(b, el.dt) ELSE IF el.t = "vstr" THEN TextE(b, el.s) ELSE NumE(b, Num(FALSE, RegDigits(el), KamScale(m, el)))
KamMeaning(m) ==
   LET d == FoldLeft(LAMBDA acc, el : Put(acc, KamEntry(m, el)), <<TextE(Field("meter_manufacturer"), <<75, 97, 109, 115, 116, 114, 117, 112>>)>>, m.elems)
   IN IF m.form = "frame" THEN Put(d, DtE(Field("meter_datetime"), m.apdu.dt)) ELSE d

Meaning(m) == IF m.meter = "aidon" THEN AidonMeaning(m) ELSE IF m.meter = "kaifa" THEN KaifaMeaning(m) ELSE KamMeaning(m)

\* ------------------------------------------------------------------ domain of the statements
Ascii(s) == \A i \in 1..Len(s) : s[i] \in 32..126
ObisOk(o) == Len(o) = 6 /\ \A i \in 1..6 : o[i] \in 0..255
ElemOk(m, el) ==
   /\ (el.t = "u32" => el.hi \in 0..65535 /\ el.lo \in 0..65535) /\ (el.t \in {"i16", "u16"} => el.lo \in 0..65535)
   /\ (el.t \in {"vstr", "ostr"} => Len(el.s) \in 1..40 /\ (IF m.meter = "aidon" THEN \A i \in 1..Len(el.s) : el.s[i] \in 0..127 ELSE Ascii(el.s)))
   /\ (el.t = "dt" => DtInDomain(el.dt))
   /\ (m.meter = "aidon" => ObisOk(el.obis) /\ el.t \in {"u32", "i16", "u16", "vstr", "dt"} /\ (IsNumT(el.t) => el.exp \in -3..3 /\ el.unit \in {27, 29, 30, 32, 33, 35}))
   /\ (m.meter = "kaifa" => /\ el.t \in {"u32", "ostr", "dt"}
                            /\ (m.layout = "obis" => ObisOk(el.obis)))
   /\ (m.meter = "kamstrup" => el.t \in {"u32", "u16", "vstr", "dt"} /\ el.nulls \in 0..8
                               /\ (el.obis # <<>> => ObisOk(el.obis) /\ Known(Cde(el))))
MsgOk(m) ==
   /\ m.meter \in {"aidon", "kaifa", "kamstrup"} /\ m.form \in {"frame", "body"} /\ Len(m.elems) \in 1..60 /\ m.count \in 0..255
   /\ \A i \in 1..Len(m.elems) : ElemOk(m, m.elems[i])
   /\ (m.form = "frame" => m.apdu.kind \in {"null", "tagged", "untagged"} /\ (m.apdu.kind # "null" => DtInDomain(m.apdu.dt)))
   /\ (m.meter = "kaifa" /\ m.layout = "pos" =>
         /\ Len(m.elems) \in {1, 9, 13, 14, 18}
         /\ (m.form = "frame" => m.apdu.kind # "null")
         /\ \A i \in 1..Len(m.elems) : LET nm == KaifaLayout(Len(m.elems))[i] IN
               m.elems[i].t = (IF nm = "meter_datetime" THEN "dt" ELSE IF nm \in {"list_ver_id", "meter_id", "meter_type"} THEN "ostr" ELSE "u32"))
   /\ (m.meter = "kamstrup" => /\ m.elems[1].obis = <<>> /\ m.elems[1].t = "vstr" /\ \A i \in 2..Len(m.elems) : m.elems[i].obis # <<>>
                               /\ (m.form = "frame" => m.apdu.kind # "null"))
   \* every OBIS code at most once (the dictionaries of the statements have one value per field)
   /\ \A i, j \in 1..Len(m.elems) : (i # j /\ m.elems[i].obis # <<>>) => m.elems[i].obis # m.elems[j].obis
=============================================================================
