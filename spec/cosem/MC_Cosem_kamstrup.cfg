SPECIFICATION Spec
CONSTANT Family = "kamstrup"
INVARIANT InDomain
INVARIANT KeysDistinct
INVARIANT Manufacturer
INVARIANT FormsAgree
INVARIANT ClockRule
INVARIANT EncodeLen
CHECK_DEADLOCK FALSE
