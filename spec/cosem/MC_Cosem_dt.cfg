SPECIFICATION Spec
CONSTANT Family = "dt"
INVARIANT InDomain
INVARIANT KeysDistinct
INVARIANT Manufacturer
INVARIANT FormsAgree
INVARIANT ClockRule
INVARIANT EncodeLen
CHECK_DEADLOCK FALSE
