-------------------------------- MODULE MC_Cosem --------------------------------
(***************************************************************************)
(* The specification checked against itself over the whole enumerated      *)
(* message space (one state per abstract message):                         *)
(*   InDomain       every enumerated message is in the statements' domain  *)
(*   KeysDistinct   Meaning is a dictionary (one entry per field)          *)
(*   Manufacturer   the manufacturer field is present with the meter name  *)
(*   FormsAgree     frame and body meanings agree on every field other     *)
(*                  than the clock (C07: on every field)                   *)
(*   ClockRule      C08/C09: Kamstrup frames carry the APDU clock; Kaifa   *)
(*                  positional frames carry the list clock if the layout   *)
(*                  has one, else the APDU clock                           *)
(*   EncodeLen      the encoder's output length equals the sum of the      *)
(*                  announced element lengths                              *)
(***************************************************************************)
EXTENDS CosemLists, FiniteSets
CONSTANT Family
All == IF Family = "aidon" THEN AidonMsgs_(0) ELSE IF Family = "kaifa" THEN KaifaMsgs_(0) ELSE IF Family = "kamstrup" THEN KamMsgs_(0) ELSE DtAll_(0)
AllSeq == SetToSeq(All)
VARIABLES grp, has, m
Init == grp \in 0..15 /\ has = FALSE /\ m = AllSeq[1]
Next == ~has /\ \E i \in 1..Len(AllSeq) : i % 16 = grp /\ m' = AllSeq[i] /\ has' = TRUE /\ UNCHANGED grp
Spec == Init /\ [][Next]_<<grp, has, m>>
Has == has
Other == [m EXCEPT !.form = IF m.form = "frame" THEN "body" ELSE "frame"]
CanOther == ~(m.form = "body" /\ m.apdu.kind = "null" /\ (m.meter = "kamstrup" \/ (m.meter = "kaifa" /\ m.layout = "pos")))
NoClock(d) == SelectSeq(d, LAMBDA e : e.name # "meter_datetime")
AsSet(d) == {d[i] : i \in 1..Len(d)}
Get(d, name) == LET idx == {i \in 1..Len(d) : d[i].name = name} IN IF idx = {} THEN E0 ELSE d[CHOOSE i \in idx : TRUE]
InDomain == Has => MsgOk(m)
KeysDistinct == Has => LET d == Meaning(m) IN \A i, j \in 1..Len(d) : i # j => Key(d[i]) # Key(d[j])
Manufacturer == Has => Get(Meaning(m), "meter_manufacturer").k = "text" /\ Get(Meaning(m), "meter_manufacturer").t # <<>>
FormsAgree == (Has /\ CanOther) => (IF m.meter = "aidon" THEN AsSet(Meaning(m)) = AsSet(Meaning(Other))
                                    ELSE AsSet(NoClock(Meaning(m))) = AsSet(NoClock(Meaning(Other))))
ListClock == {i \in 1..Len(m.elems) : m.elems[i].t = "dt"}
ClockRule == (Has /\ m.form = "frame") =>
   (IF m.meter = "kamstrup" THEN Get(Meaning(m), "meter_datetime").dt = DtMeaning(m.apdu.dt)
    ELSE IF m.meter = "kaifa" /\ m.layout = "pos" THEN
         Get(Meaning(m), "meter_datetime").dt = (IF ListClock # {} THEN DtMeaning(m.elems[CHOOSE i \in ListClock : TRUE].dt) ELSE DtMeaning(m.apdu.dt))
    ELSE TRUE)
ElemLen(el) == (IF el.obis # <<>> THEN 8 ELSE 0) + (IF el.t = "u32" THEN 5 ELSE IF el.t \in {"i16", "u16"} THEN 3 ELSE IF el.t = "dt" THEN 14 ELSE 2 + Len(el.s))
               + (IF m.meter = "aidon" THEN 2 + (IF IsNumT(el.t) THEN 6 ELSE 0) ELSE 0) + (IF m.meter = "kamstrup" THEN el.nulls ELSE 0)
EncodeLen == Has => Len(Encode(m)) = 2 + FoldLeft(LAMBDA a, el : a + ElemLen(el), 0, m.elems)
                                       + (IF m.form = "frame" THEN 8 + (IF m.apdu.kind = "null" THEN 1 ELSE IF m.apdu.kind = "tagged" THEN 14 ELSE 13) ELSE 0)
=============================================================================
