------------------------------ MODULE Trace_Cosem ------------------------------
(* Judge decoded dictionaries of the three COSEM decoders (C07, C08, C09, C10).                              *)
(* trace = [id, canary, msg (abstract), bytes (as fed), got : [raised, entries], other : [raised, entries]]   *)
(*   bytes must equal Encode(msg) (the Python-side encoder/reader is not trusted)                             *)
(*   got    decode_frame_content / decode_notification_body of the message's own form                         *)
(*   other  the same list in the other form (frame <-> body), "" = not recorded                               *)
(* Clauses  <P>.decode   dictionary = Meaning(msg)          (P = C07/C08/C09 by meter)                         *)
(*          <P>.forms    frame and body dictionaries agree (apart from the clock as the statement says)       *)
(*          C10.datetime some date-time entry differs (reported additionally)                                 *)
EXTENDS Cosem, Json, IOUtils
P(m) == IF m.meter = "aidon" THEN "C07" ELSE IF m.meter = "kaifa" THEN "C08" ELSE "C09"
NameMatch(e, x) == IF e.known THEN x.name = e.name ELSE x.nametext = e.nametext
ValMatch(e, x) == IF e.k = "num" THEN x.k = "num" /\ x.neg = e.neg /\ x.int = e.int /\ x.frac = e.frac
                  ELSE IF e.k = "dt" THEN x.k = "dt" /\ x.dt = e.dt ELSE x.k = "text" /\ x.t = e.t
DictOk(exp, got) == Len(got) = Len(exp) /\ \A i \in 1..Len(exp) : \E j \in 1..Len(got) : NameMatch(exp[i], got[j]) /\ ValMatch(exp[i], got[j])
DtBad(exp, got) == \E i \in 1..Len(exp) : exp[i].k = "dt" /\ ~\E j \in 1..Len(got) : NameMatch(exp[i], got[j]) /\ ValMatch(exp[i], got[j])
OtherForm(m) == [m EXCEPT !.form = IF m.form = "frame" THEN "body" ELSE "frame"]
Verdict(t) ==
  LET m == t.msg
      fails0 == IF t.got.raised # "" THEN <<P(m) \o ".raised">>
                ELSE IF ~DictOk(Meaning(m), t.got.entries) THEN
                     (IF DtBad(Meaning(m), t.got.entries) THEN <<P(m) \o ".decode", "C10.datetime">> ELSE <<P(m) \o ".decode">>)
                ELSE <<>>
      fails1 == IF t.hasother /\ (t.other.raised # "" \/ ~DictOk(Meaning(OtherForm(m)), t.other.entries)) THEN <<P(m) \o ".forms">> ELSE <<>>
  IN IF ~MsgOk(m) \/ t.bytes # Encode(m) \/ (t.hasother /\ (~MsgOk(OtherForm(m)) \/ t.obytes # Encode(OtherForm(m)))) THEN [id |-> t.id, ok |-> FALSE, fails |-> <<"plan">>]
     ELSE [id |-> t.id, ok |-> fails0 \o fails1 = <<>>, fails |-> fails0 \o fails1]
Traces == ndJsonDeserialize(IOEnv.TRACE_FILE)
ASSUME JsonSerialize(IOEnv.OUT_FILE, [i \in 1..Len(Traces) |-> Verdict(Traces[i])])
=============================================================================
