------------------------------- MODULE Decimal -------------------------------
(***************************************************************************)
(* Exact decimal numbers as digit sequences (TLC integers are 32-bit, the  *)
(* registers are not).  A canonical number is                              *)
(*    [neg, int, frac]   int  = digits without leading zeros (<<0>> = 0)   *)
(*                       frac = digits without trailing zeros (<<>> = none)*)
(* Scaling by a power of ten is a shift of the decimal point.              *)
(***************************************************************************)
EXTENDS Integers, Sequences, SequencesExt

RECURSIVE StripLead(_), StripTrail(_)
StripLead(d) == IF Len(d) > 1 /\ d[1] = 0 THEN StripLead(Tail(d)) ELSE IF d = <<>> THEN <<0>> ELSE d
StripTrail(d) == IF d # <<>> /\ d[Len(d)] = 0 THEN StripTrail(SubSeq(d, 1, Len(d) - 1)) ELSE d
Zeros(n) == [i \in 1..n |-> 0]

RECURSIVE NatDigits(_)
NatDigits(n) == IF n < 10 THEN <<n>> ELSE Append(NatDigits(n \div 10), n % 10)

\* decimal digits of hi * 65536 + lo (two 16-bit limbs) by long division
RECURSIVE U32DigitsR(_, _)
U32DigitsR(hi, lo) ==
   IF hi = 0 THEN NatDigits(lo)
   ELSE LET t == (hi % 10) * 65536 + lo IN Append(U32DigitsR(hi \div 10, t \div 10), t % 10)
\* (hi \div 10) * 65536 + (t \div 10) may need a limb carry: t \div 10 < 65536 * 10 / 10 + 6553 -> normalise
Norm(hi, lo) == <<hi + lo \div 65536, lo % 65536>>
RECURSIVE U32Digits(_, _)
U32Digits(hi, lo) ==
   IF hi = 0 THEN NatDigits(lo)
   ELSE LET t == (hi % 10) * 65536 + lo
            q == Norm(hi \div 10, t \div 10)
        IN Append(U32Digits(q[1], q[2]), t % 10)

\* digits * 10^exp as canonical [int, frac]
Scale(digits, exp) ==
   IF exp >= 0 THEN [int |-> StripLead(digits \o Zeros(exp)), frac |-> <<>>]
   ELSE LET p == Zeros(-exp) \o digits n == Len(p) IN
        [int |-> StripLead(SubSeq(p, 1, n + exp)), frac |-> StripTrail(SubSeq(p, n + exp + 1, n))]
IsZero(c) == c.int = <<0>> /\ c.frac = <<>>
Num(neg, digits, exp) == LET c == Scale(digits, exp) IN [neg |-> neg /\ ~IsZero(c), int |-> c.int, frac |-> c.frac]

\* comparison of canonical non-negative numbers: -1, 0, 1
RECURSIVE CmpDigits(_, _)
CmpDigits(a, b) == IF a = <<>> /\ b = <<>> THEN 0
                   ELSE IF a = <<>> THEN (IF StripTrail(b) = <<>> THEN 0 ELSE -1)
                   ELSE IF b = <<>> THEN (IF StripTrail(a) = <<>> THEN 0 ELSE 1)
                   ELSE IF a[1] < b[1] THEN -1 ELSE IF a[1] > b[1] THEN 1 ELSE CmpDigits(Tail(a), Tail(b))
CmpInt(a, b) == IF Len(a) < Len(b) THEN -1 ELSE IF Len(a) > Len(b) THEN 1 ELSE CmpDigits(a, b)
Cmp(x, y) == LET c == CmpInt(x.int, y.int) IN IF c # 0 THEN c ELSE CmpDigits(x.frac, y.frac)

\* integer digits minus one (for d > 0)
RECURSIVE DecDigits(_)
DecDigits(d) == IF d[Len(d)] > 0 THEN [d EXCEPT ![Len(d)] = d[Len(d)] - 1]
                ELSE Append(DecDigits(SubSeq(d, 1, Len(d) - 1)), 9)
Pred(d) == StripLead(DecDigits(d))

ASSUME U32Digits(65535, 65535) = <<4, 2, 9, 4, 9, 6, 7, 2, 9, 5>>
ASSUME U32Digits(32768, 0) = <<2, 1, 4, 7, 4, 8, 3, 6, 4, 8>>
ASSUME U32Digits(1, 0) = <<6, 5, 5, 3, 6>>
ASSUME Scale(<<8, 9, 6>>, -3) = [int |-> <<0>>, frac |-> <<8, 9, 6>>]
ASSUME Scale(<<1, 0, 0, 0>>, -3) = [int |-> <<1>>, frac |-> <<>>]
ASSUME Scale(<<5>>, 2) = [int |-> <<5, 0, 0>>, frac |-> <<>>]
ASSUME Pred(<<1, 0, 0>>) = <<9, 9>>
=============================================================================
