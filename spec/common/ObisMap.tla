------------------------------- MODULE ObisMap -------------------------------
(* Common field names (han/obis_map.py): OBIS value groups C.D.E -> key of the decoded dictionary. *)
EXTENDS Integers, Sequences
NameTable == <<
  <<<<0, 2, 129>>, "list_ver_id">>, <<<<96, 1, 0>>, "meter_id">>, <<<<0, 0, 5>>, "meter_id">>,
  <<<<96, 1, 7>>, "meter_type">>, <<<<96, 1, 1>>, "meter_type">>, <<<<1, 0, 0>>, "meter_datetime">>,
  <<<<1, 7, 0>>, "active_power_import">>, <<<<21, 7, 0>>, "active_power_import_l1">>, <<<<41, 7, 0>>, "active_power_import_l2">>,
  <<<<61, 7, 0>>, "active_power_import_l3">>, <<<<2, 7, 0>>, "active_power_export">>, <<<<22, 7, 0>>, "active_power_export_l1">>,
  <<<<42, 7, 0>>, "active_power_export_l2">>, <<<<62, 7, 0>>, "active_power_export_l3">>, <<<<3, 7, 0>>, "reactive_power_import">>,
  <<<<23, 7, 0>>, "reactive_power_import_l1">>, <<<<43, 7, 0>>, "reactive_power_import_l2">>, <<<<63, 7, 0>>, "reactive_power_import_l3">>,
  <<<<4, 7, 0>>, "reactive_power_export">>, <<<<24, 7, 0>>, "reactive_power_export_l1">>, <<<<44, 7, 0>>, "reactive_power_export_l2">>,
  <<<<64, 7, 0>>, "reactive_power_export_l3">>, <<<<31, 7, 0>>, "current_l1">>, <<<<51, 7, 0>>, "current_l2">>, <<<<71, 7, 0>>, "current_l3">>,
  <<<<32, 7, 0>>, "voltage_l1">>, <<<<52, 7, 0>>, "voltage_l2">>, <<<<72, 7, 0>>, "voltage_l3">>,
  <<<<1, 8, 0>>, "active_power_import_total">>, <<<<2, 8, 0>>, "active_power_export_total">>,
  <<<<3, 8, 0>>, "reactive_power_import_total">>, <<<<4, 8, 0>>, "reactive_power_export_total">> >>
Known(cde) == \E i \in 1..Len(NameTable) : NameTable[i][1] = cde
NameOf(cde) == NameTable[CHOOSE i \in 1..Len(NameTable) : NameTable[i][1] = cde][2]
=============================================================================
