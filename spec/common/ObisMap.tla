------------------------------- MODULE ObisMap -------------------------------
(* Common field names (han/obis_map.py): OBIS value groups C.D.E -> key of the decoded dictionary. *)
EXTENDS Integers, Sequences
NameTable == <<
  <<<<0, 2, 129>>, "list_ver_id">>, <<<<96, 1, 0>>, "meter_id">>, <<<<0, 0, 5>>, "meter_id">>,
  <<<<96, 1, 7>>, "meter_type">>, <<<<96, 1, 1>>, "meter_type">>, <<<<1, 0, 0>>, "meter_datetime">>,
  <<<<1, 7, 0>>, "active_power_import">>, <<<<21, 7, 0>>, "active_power_import_l1">>, <<<<41, 7, 0>>, "active_power_import_l2">>,
  <<<<61, 7, 0>>, "active_power_import_l3">>, <<<<2, 7, 0>>, "active_power_export">>, <<<<22, 7, 0>>, "active_power_export_l1">>,
  <<<<42, 7, 0>>, "active_power_export_l2">>, <<<<62, 7, 0>>, "active_power_export_l3">>, <<<<3, 7, 0>>, "reactive_power_import">>,
  <<<<23, 7, 0>>, "reactive_power_import_l1">>, <<<<43, 7, 0>>, "reactive_power_import_l2">>, <<<<63, 7, 0>>, "reactive_power_import_l3">>,
  <<<<4, 7, 0>>, "reactive_power_export">>, <<<<24, 7, 0>>, "reactive_power_export_l1">>, <<<<44, 7, 0>>, "reactive_power_export_l2">>,
  <<<<64, 7, 0>>, "reactive_power_export_l3">>, <<<<31, 7, 0>>, "current_l1">>, <<<<51, 7, 0>>, "current_l2">>, <<<<71, 7, 0>>, "current_l3">>,
  <<<<32, 7, 0>>, "voltage_l1">>, <<<<52, 7, 0>>, "voltage_l2">>, <<<<72, 7, 0>>, "voltage_l3">>,
  <<<<1, 8, 0>>, "active_power_import_total">>, <<<<2, 8, 0>>, "active_power_export_total">>,
  <<<<3, 8, 0>>, "reactive_power_import_total">>, <<<<4, 8, 0>>, "reactive_power_export_total">> >>
Known(cde) == \E i \in 1..Len(NameTable) : NameTable[i][1] = cde
NameOf(cde) == NameTable[CHOOSE i \in 1..Len(NameTable) : NameTable[i][1] = cde][2]
(* The register catalogue han/obis.py OBIS_CODES, stated by rule (IEC 62056-61 value group C = 20*phase + quantity,     *)
(* D = 7 instantaneous / 8 time integral) instead of by table: unit, category and phase follow from the code.          *)
NoPhase == -1
Quantity(c) == c % 20
PhaseOfC(c) == IF c >= 21 THEN c \div 20 ELSE NoPhase
UnitOfCode(c, d) == LET q == Quantity(c) IN
  IF q \in {1, 2} THEN (IF d = 7 THEN "kW" ELSE "kWh")
  ELSE IF q \in {3, 4} THEN (IF d = 7 THEN "kvar" ELSE "kvarh")
  ELSE IF q = 11 THEN "A" ELSE IF q = 12 THEN "V" ELSE ""
CategoryOfCode(c, d) == LET q == Quantity(c) IN
  IF d = 7 THEN (IF q \in 1..4 THEN "INSTANTANEOUS_POWER" ELSE "EL_NET_QUALITY")
  ELSE IF PhaseOfC(c) # NoPhase THEN "ACTIVE_ENERGY_PHASES"
  ELSE IF q \in {1, 2} THEN "ACTIVE_ENERGY" ELSE "REACTIVE_ENERGY"
CatalogueDomain(c, d, e) == /\ e = 0 /\ d \in {7, 8} /\ PhaseOfC(c) \in {NoPhase, 1, 2, 3}
                            /\ Quantity(c) \in (IF d = 7 THEN {1, 2, 3, 4, 11, 12, 13} ELSE IF PhaseOfC(c) = NoPhase THEN 1..4 ELSE {1, 2})
\* every measurement the decoders name (D = 7 or 8 in NameTable) has a catalogue entry
NamedMeasurements == {NameTable[i][1] : i \in {j \in 1..Len(NameTable) : NameTable[j][1][2] \in {7, 8}}}
=============================================================================
