------------------------------ MODULE Crc16Arc ------------------------------
(***************************************************************************)
(* CRC-16/ARC as required by IEC 62056-21 / DSMR P1: polynomial            *)
(* x^16+x^15+x^2+1 processed reflected (0xA001), initial value 0, no final *)
(* XOR.  Bit-serial definition; the table form is derived from it.         *)
(***************************************************************************)
EXTENDS Integers, Sequences, Bitwise, SequencesExt
PolyArc == 40961      \* 0xA001
RECURSIVE ArcBits(_, _)
ArcBits(c, k) == IF k = 0 THEN c
                 ELSE ArcBits(IF c % 2 = 1 THEN shiftR(c, 1) ^^ PolyArc ELSE shiftR(c, 1), k - 1)
ArcBitStep(r, b) == ArcBits(r ^^ b, 8)
ArcTab == [i \in 0..255 |-> ArcBits(i, 8)]
ArcStep(r, b) == shiftR(r, 8) ^^ ArcTab[(r ^^ b) % 256]
Crc16Arc(seq) == FoldLeft(ArcStep, 0, seq)
Crc16ArcBits(seq) == FoldLeft(ArcBitStep, 0, seq)
ASSUME Crc16ArcBits(<<49, 50, 51, 52, 53, 54, 55, 56, 57>>) = 47933     \* check value 0xBB3D
ASSUME \A r \in {0, 1, 255, 256, 40961, 65535}, b \in 0..255 : ArcStep(r, b) = ArcBitStep(r, b)
=============================================================================
