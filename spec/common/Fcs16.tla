------------------------------- MODULE Fcs16 -------------------------------
(***************************************************************************)
(* RFC 1662 (PPP in HDLC-like framing), appendix C: 16-bit Fast Frame      *)
(* Check Sequence.  Generator x^16 + x^12 + x^5 + 1, processed reflected   *)
(* (0x8408), initial register 0xFFFF, transmitted FCS = complement of the  *)
(* register, low octet first; a good frame leaves the register at 0xF0B8.  *)
(*                                                                         *)
(* BitStep is the bit-serial definition and is the only thing taken from   *)
(* the RFC.  Tab/FStep is the derived table form used by the other modules *)
(* for speed; spec/fcs/MC_Fcs16 checks FStep = BitStep on all 2^24 pairs.  *)
(***************************************************************************)
EXTENDS Integers, Sequences, Bitwise, SequencesExt

Poly     == 33800      \* 0x8408
InitFcs  == 65535      \* 0xFFFF
GoodFcs  == 61624      \* 0xF0B8

RECURSIVE Bits(_, _)
Bits(c, k) == IF k = 0 THEN c
              ELSE Bits(IF c % 2 = 1 THEN shiftR(c, 1) ^^ Poly ELSE shiftR(c, 1), k - 1)

BitStep(r, b) == Bits(r ^^ b, 8)                 \* r \in 0..65535, b \in 0..255

Tab == [i \in 0..255 |-> Bits(i, 8)]
FStep(r, b) == shiftR(r, 8) ^^ Tab[(r ^^ b) % 256]

FcsReg(seq)   == FoldLeft(FStep, InitFcs, seq)   \* register after feeding seq
FcsVal(seq)   == FcsReg(seq) ^^ 65535            \* the checksum (complemented)
FcsBytes(seq) == LET c == FcsVal(seq) IN <<c % 256, c \div 256>>   \* low octet first
IsGood(seq)   == FcsReg(seq) = GoodFcs

\* bit-serial versions (slow; used to cross-check on recorded data)
FcsRegBits(seq) == FoldLeft(BitStep, InitFcs, seq)
=============================================================================
