------------------------------ MODULE Gen_Fcs16 ------------------------------
(* spec -> code: export the derived table (defined from the bit-serial step)  *)
(* and reference vectors, for the exhaustive replay of the step function.     *)
EXTENDS Fcs16, TLC, Json, IOUtils
Vectors == << <<>>, <<0>>, <<255>>, <<49, 50, 51, 52, 53, 54, 55, 56, 57>>, <<126, 125, 94, 93>>,
             <<160, 7, 1, 3, 19>> >>
ASSUME JsonSerialize(IOEnv.OUT_FILE,
         [tab |-> Tab, good |-> GoodFcs, init |-> InitFcs,
          vectors |-> [i \in 1..Len(Vectors) |-> [data |-> Vectors[i], fcs |-> FcsRegBits(Vectors[i]) ^^ 65535]]])
=============================================================================
