----------------------------- MODULE Trace_Fcs16 -----------------------------
(***************************************************************************)
(* Judge recorded executions of the real FastFrameCheckSequence16 against  *)
(* the bit-serial RFC 1662 definition (never against the table).           *)
(* Trace: [id, canary, data : Seq(0..255),                                 *)
(*         steps : per octet [ret, checksum, good] as returned by          *)
(*                 update(), .checksum, .is_good after that octet,         *)
(*         windows : [start, length, ret] for compute_checksum]            *)
(* Clauses: "ret"  update() returns the register of the bit-serial fold    *)
(*          "sum"  checksum is its complement                              *)
(*          "good" is_good <=> register = 0xF0B8                           *)
(*          "tail" is_good <=> the last two octets are the FCS of the      *)
(*                 preceding ones, low octet first   (the statement)       *)
(*          "win"  compute_checksum(data,start,length) = FCS of the window *)
(***************************************************************************)
EXTENDS Fcs16, TLC, Json, IOUtils

Regs(data) == \* sequence of registers after each octet, bit-serial
  LET r == FoldLeft(LAMBDA acc, b : LET n == BitStep(acc[1], b) IN <<n, Append(acc[2], n)>>,
                    <<InitFcs, <<>>>>, data)
  IN r[2]

BadStep(t, regs, i) ==
  LET s == t.steps[i] g == regs[i] IN
  IF s.ret # g THEN "ret"
  ELSE IF s.checksum # (g ^^ 65535) THEN "sum"
  ELSE IF s.good # (g = GoodFcs) THEN "good"
  ELSE IF i >= 2 /\ s.good #
          (LET pre == IF i = 2 THEN InitFcs ELSE regs[i - 2]
               c == pre ^^ 65535
           IN t.data[i - 1] = c % 256 /\ t.data[i] = c \div 256) THEN "tail"
  ELSE ""

BadWin(t, w) == w.ret # (FcsRegBits(SubSeq(t.data, w.start + 1, w.start + w.length)) ^^ 65535)

Verdict(t) ==
  LET regs == Regs(t.data)
      bs == {i \in 1..Len(t.steps) : BadStep(t, regs, i) # ""}
      bw == {k \in 1..Len(t.windows) : BadWin(t, t.windows[k])}
  IN IF Len(t.steps) # Len(t.data) THEN [id |-> t.id, ok |-> FALSE, clause |-> "shape", at |-> 0]
     ELSE IF bs # {} THEN LET i == CHOOSE i \in bs : \A j \in bs : i <= j IN
                          [id |-> t.id, ok |-> FALSE, clause |-> BadStep(t, regs, i), at |-> i]
     ELSE IF bw # {} THEN [id |-> t.id, ok |-> FALSE, clause |-> "win", at |-> CHOOSE k \in bw : TRUE]
     ELSE [id |-> t.id, ok |-> TRUE, clause |-> "", at |-> 0]

Traces == ndJsonDeserialize(IOEnv.TRACE_FILE)
ASSUME JsonSerialize(IOEnv.OUT_FILE, [i \in 1..Len(Traces) |-> Verdict(Traces[i])])
=============================================================================
