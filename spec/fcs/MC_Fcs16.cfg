SPECIFICATION Spec
INVARIANT StepEq
INVARIANT Linear
INVARIANT Residue
INVARIANT UniqueSample
CHECK_DEADLOCK FALSE
