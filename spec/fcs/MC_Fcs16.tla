------------------------------ MODULE MC_Fcs16 ------------------------------
(***************************************************************************)
(* Exhaustive check of the FCS-16 step function and of the lemmas from     *)
(* which  "is_good after data||t1 t2  <=>  <<t1,t2>> = FCS(data), low      *)
(* octet first"  follows for every message (every register value):         *)
(*                                                                         *)
(*  StepEq   FStep(r,b) = BitStep(r,b)          all 2^16 x 2^8 pairs       *)
(*  Linear   FStep(r,b) = FStep(r ^^ b, 0)      all 2^16 x 2^8 pairs       *)
(*  Residue  feeding the complemented register, low octet first, reaches   *)
(*           0xF0B8 from every register value    (existence)               *)
(*  S0Inj    g(x) == FStep(x,0) is injective on 0..65535                   *)
(*  TabHighDistinct  the 256 table entries have distinct high octets       *)
(*                                                                         *)
(* Uniqueness of the trailer: FStep(FStep(r,t1),t2) = g(g(r^^t1) ^^ t2).   *)
(* g is a bijection (S0Inj), so g(r^^t1) ^^ t2 = g^-1(0xF0B8) =: A.  t2    *)
(* only touches the low octet, hence high(g(r^^t1)) = high(A); the high    *)
(* octet of g(x) is the high octet of Tab[x % 256] (x >> 8 < 256), which   *)
(* by TabHighDistinct determines (r^^t1) % 256, i.e. t1, and then t2.      *)
(* UniqueSample re-checks that conclusion by brute force on the registers  *)
(* of the first init class (256 registers x 65536 trailers).               *)
(*                                                                         *)
(* State space: 256 initial states (high octet), 256 successors each (low  *)
(* octet), so that the 16 workers share the 65536 registers.               *)
(***************************************************************************)
EXTENDS Fcs16, TLC, FiniteSets
VARIABLES hi, lo
Init == hi \in 0..255 /\ lo = -1
Next == lo = -1 /\ lo' \in 0..255 /\ hi' = hi
Spec == Init /\ [][Next]_<<hi, lo>>
r == hi * 256 + lo

StepEq  == lo >= 0 => \A b \in 0..255 : FStep(r, b) = BitStep(r, b)
Linear  == lo >= 0 => \A b \in 0..255 : FStep(r, b) = FStep(r ^^ b, 0)
Residue == lo >= 0 => LET c == r ^^ 65535 IN FStep(FStep(r, c % 256), c \div 256) = GoodFcs
UniqueSample == (lo >= 0 /\ hi = 165) =>
           \A t1 \in 0..255 :
             LET r1 == FStep(r, t1)
                 good == {t2 \in 0..255 : FStep(r1, t2) = GoodFcs}
                 c == r ^^ 65535
             IN IF t1 = c % 256 THEN good = {c \div 256} ELSE good = {}
TabHighDistinct == Cardinality({shiftR(Tab[i], 8) : i \in 0..255}) = 256
S0Inj == Cardinality({FStep(x, 0) : x \in 0..65535}) = 65536
ASSUME TabHighDistinct
ASSUME S0Inj
ASSUME Tab[0] = 0 /\ Tab[1] = 4489 /\ Tab[255] = 3960     \* RFC 1662 fcstab[0], [1], [255]
=============================================================================
