SPECIFICATION Spec
CONSTANTS
 MaxCalls = 3
 Caught = {"Construct", "Value", "Arithmetic", "Lookup", "Type", "Attribute"}
 Raised = {"Construct", "Value", "Arithmetic", "Lookup", "Type", "Attribute"}
INVARIANT Conforms
INVARIANT NothingEscapes
CHECK_DEADLOCK FALSE
