----------------------------- MODULE MC_AutoDecoder -----------------------------
(* All histories up to MaxCalls over all 2^7 acceptance vectors (rejecting decoders raise any class of *)
(* Raised): Impl => Contract, and no exception escapes iff Raised \subseteq Caught (C15).               *)
EXTENDS AutoDecoder, TLC
CONSTANTS MaxCalls, Caught, Raised
VARIABLES prev, ncall, ok, escaped
vars == <<prev, ncall, ok, escaped>>
Init == prev = 0 /\ ncall = 0 /\ ok = TRUE /\ escaped = ""
Call == /\ ncall < MaxCalls /\ ok /\ escaped = ""
        /\ \E acc \in SUBSET (1..N), cls \in Raised :
             LET outcome == [k \in 1..N |-> IF k \in acc THEN "acc" ELSE cls]
                 r == Decode(prev, outcome, Caught)
             IN /\ prev' = r[2] /\ escaped' = r[3]
                /\ ok' = (r[3] # "" \/ (ResultOk(prev, acc, r[1]) /\ PrevOk(prev, r[1], r[2])))
        /\ ncall' = ncall + 1
Spec == Init /\ [][Call]_vars
Conforms == ok
NothingEscapes == escaped = ""
=============================================================================
