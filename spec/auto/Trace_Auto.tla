------------------------------- MODULE Trace_Auto -------------------------------
(* Judge recorded AutoDecoder histories.                                         *)
(* trace = [id, canary, calls]                                                   *)
(* call = [acc : Seq(BOOLEAN) (7), same : Seq(BOOLEAN) (7)  result equals decoder k's own result, *)
(*         outcome \in {"dict","none","raised","hang"}, detail, prev_before, prev_after, own,     *)
(*         pair : "" | "equal" | "differ"  (decode_message vs decode_message_payload in lockstep),*)
(*         steps, n, form : "payload" | "message" | "readout"]                                    *)
EXTENDS AutoDecoder, SequencesExt, TLC, Json, IOUtils
StepBound(n) == IF n > 7000 THEN 2147483647 ELSE 400000 + 6000 * n + 40 * n * n      \* profile events; generous (C15's polynomial clause is a measurement); TLC integers are 32 bit
CallFails(c, i) ==
  LET acc == {k \in 1..N : c.acc[k]}
      same == {k \in 1..N : c.same[k]}
      bad(cl) == <<[c |-> cl, at |-> i]>> IN
  IF c.outcome = "raised" THEN bad("C15.raised")
  ELSE IF c.outcome = "hang" THEN bad("C15.hang")
  ELSE IF c.form = "readout" THEN      \* decode_message(DataReadout): the result carries identification fields, so only the memory clauses apply
       (IF c.steps > StepBound(c.n) THEN bad("C15.steps") ELSE <<>>)
       \o (IF c.outcome = "none" /\ c.prev_after # c.prev_before THEN bad("C12.previous_unchanged") ELSE <<>>)
       \o (IF c.outcome = "dict" /\ c.prev_after \notin acc THEN bad("C12.previous_success_decoder") ELSE <<>>)
       \o (IF c.outcome = "dict" /\ c.own # 0 /\ c.prev_before \in {0, c.own} /\ c.prev_after # c.own THEN bad("C12.genuine_own_decoder") ELSE <<>>)
  ELSE (IF c.steps > StepBound(c.n) THEN bad("C15.steps") ELSE <<>>)
       \o (IF (c.outcome = "none") # (acc = {}) THEN bad("C12.none_iff_nobody") ELSE <<>>)
       \o (IF c.outcome = "dict" /\ same \cap acc = {} THEN bad("C12.result_of_accepting_decoder") ELSE <<>>)
       \o (IF c.outcome = "dict" /\ c.prev_before \in acc /\ c.prev_before \notin same THEN bad("C12.previous_first") ELSE <<>>)
       \o (IF c.outcome = "dict" /\ ~(c.prev_after \in same \cap acc /\ (c.prev_before \in acc => c.prev_after = c.prev_before))
              THEN bad("C12.previous_success_decoder") ELSE <<>>)
       \o (IF c.outcome = "none" /\ c.prev_after # c.prev_before THEN bad("C12.previous_unchanged") ELSE <<>>)
       \o (IF c.outcome = "dict" /\ c.own # 0 /\ c.prev_before \in {0, c.own} /\ c.prev_after # c.own THEN bad("C12.genuine_own_decoder") ELSE <<>>)
       \o (IF c.pair = "differ" THEN bad("C12.decode_message_vs_payload") ELSE <<>>)
Verdict(t) == LET fails == FoldLeft(LAMBDA a, i : a \o CallFails(t.calls[i], i), <<>>, [i \in 1..Len(t.calls) |-> i])
              IN [id |-> t.id, ok |-> fails = <<>>, fails |-> fails]
Traces == ndJsonDeserialize(IOEnv.TRACE_FILE)
ASSUME JsonSerialize(IOEnv.OUT_FILE, [i \in 1..Len(Traces) |-> Verdict(Traces[i])])
=============================================================================
