---------------------------- MODULE Gen_AutoDecoder ----------------------------
(* spec -> code: every transition of the AutoDecoder model: remembered decoder x acceptance set. *)
EXTENDS AutoDecoder, SequencesExt, TLC, Json, IOUtils
Caught == {"Value"}
Tr(prev, acc) == LET r == Decode(prev, [k \in 1..N |-> IF k \in acc THEN "acc" ELSE "Value"], Caught)
                 IN [prev |-> prev, acc |-> SetToSeq(acc), result |-> r[1], prev_after |-> r[2]]
ASSUME JsonSerialize(IOEnv.OUT_FILE, SetToSeq({Tr(p, a) : p \in 0..N, a \in SUBSET (1..N)}))
=============================================================================
