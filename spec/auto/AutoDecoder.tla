------------------------------ MODULE AutoDecoder ------------------------------
(***************************************************************************)
(* han/autodecoder.py.  Decoders are numbered 1..N in table order          *)
(*  1 Aidon_frame 2 Kaifa_frame 3 Kamstrup_frame 4 P1 5 Aidon_body         *)
(*  6 Kaifa_body 7 Kamstrup_body;  prev = 0 means no previous success.     *)
(*                                                                         *)
(* Contract (C12), per call with acceptance set acc (decoders that return  *)
(* a dictionary for this payload when called on their own):                *)
(*   result = 0 (None)  <=>  acc = {}                                      *)
(*   result \in acc;  prev \in acc => result = prev                        *)
(*   prev' = result if result # 0, else prev                               *)
(*   genuine message of decoder g, fresh or same-meter-same-form history   *)
(*   (prev \in {0, g}) => result = g                                       *)
(* Implementation shape: cyclic scan starting at prev (or the first),      *)
(* remember the index on success.  A decoder outcome is "acc", or the name *)
(* of the exception class it raises; classes outside Caught escape (C15).  *)
(***************************************************************************)
EXTENDS Integers, Sequences, FiniteSets
N == 7

\* ---- implementation-shaped: outcome[k] \in {"acc"} \cup exception classes; returns <<result, prev', escaped class or "">>
ScanOrder(prev) == LET start == IF prev = 0 THEN 0 ELSE prev - 1 IN [i \in 1..N |-> ((i - 1 + start) % N) + 1]
RECURSIVE Scan(_, _, _, _, _)
Scan(order, i, outcome, caught, prev) ==
   IF i > N THEN <<0, prev, "">>
   ELSE LET k == order[i] IN
        IF outcome[k] = "acc" THEN <<k, k, "">>
        ELSE IF outcome[k] \in caught THEN Scan(order, i + 1, outcome, caught, prev)
        ELSE <<0, prev, outcome[k]>>            \* the exception escapes decode_message_payload
Decode(prev, outcome, caught) == Scan(ScanOrder(prev), 1, outcome, caught, prev)

\* ---- contract
ResultOk(prev, acc, result) ==
   /\ (result = 0) = (acc = {})
   /\ (result # 0 => result \in acc)
   /\ (prev \in acc => result = prev)
PrevOk(prev, result, prevAfter) == prevAfter = (IF result # 0 THEN result ELSE prev)
GenuineOk(prev, own, result) == (own # 0 /\ prev \in {0, own}) => result = own
=============================================================================
