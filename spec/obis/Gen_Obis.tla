-------------------------------- MODULE Gen_Obis --------------------------------
(* spec -> code: all 16 presence patterns of the optional groups x boundary values, rendered in both   *)
(* syntaxes by the specification, with the groups the parser must return.                              *)
EXTENDS Obis, Json, IOUtils
Vals == {0, 1, 9, 10, 99, 100, 255}
Opt == Vals \cup {None}
\* pairwise-ish: C, D over all values; optional groups over presence patterns with two value choices
Groups == {<<a, b, c, d, e, f>> : a \in {None, 0, 1, 255}, b \in {None, 0, 99}, c \in Vals, d \in {0, 7, 255}, e \in {None, 0, 10}, f \in {None, 0, 255}}
Case(g, form) == [form |-> form, groups |-> g, text |-> IF form = "six" THEN SixPart(g) ELSE Reduced(g)]
ASSUME JsonSerialize(IOEnv.OUT_FILE,
         SetToSeq({Case(g, "reduced") : g \in Groups} \cup {Case(g, "six") : g \in {h \in Groups : AllPresent(h)}}))
=============================================================================
