-------------------------------- MODULE MC_Obis --------------------------------
(* Design-level losslessness of the two renderings: on the value-group space below, the reduced form is   *)
(* injective on all groups (so a parser CAN recover them), the six-part form is injective on fully         *)
(* specified groups, and no reduced string of one group tuple is a six-part string of another.             *)
(* One state per group tuple; the invariant ranges over all other tuples.                                  *)
EXTENDS Obis, ObisMap
Vals == {0, 1, 25}
Opt == Vals \cup {None}
Groups == {<<a, b, c, d, e, f>> : a \in Opt, b \in Opt, c \in Vals, d \in Vals, e \in Opt, f \in Opt}
VARIABLES ab, g            \* two levels so that the 16 workers share the tuples (initial states are checked serially)
Init == ab \in Opt \X Opt /\ g = <<>>
Next == g = <<>> /\ g' \in {h \in Groups : h[1] = ab[1] /\ h[2] = ab[2]} /\ UNCHANGED ab
Spec == Init /\ [][Next]_<<ab, g>>
ReducedInjective == g # <<>> => \A h \in Groups : Reduced(g) = Reduced(h) => g = h
SixInjective == (g # <<>> /\ AllPresent(g)) => \A h \in Groups : (AllPresent(h) /\ SixPart(g) = SixPart(h)) => g = h
NoCrossTalk == g # <<>> => \A h \in Groups : AllPresent(h) => Reduced(g) # SixPart(h)
DigitDotDigit == g # <<>> => (HasDigitDotDigit(Reduced(g)) /\ (AllPresent(g) => HasDigitDotDigit(SixPart(g))))
(* The two tables of ObisMap agree with each other: for every measurement (D = 7 or 8) the field name the decoders use is the   *)
(* one the catalogue rules give for that code - quantity, phase suffix, "_total" for the time integral.                        *)
QuantityName(q) == CASE q = 1 -> "active_power_import" [] q = 2 -> "active_power_export" [] q = 3 -> "reactive_power_import"
                     [] q = 4 -> "reactive_power_export" [] q = 11 -> "current" [] q = 12 -> "voltage" [] OTHER -> "?"
PhaseSuffix(p) == CASE p = NoPhase -> "" [] p = 1 -> "_l1" [] p = 2 -> "_l2" [] p = 3 -> "_l3" [] OTHER -> "?"
RuleName(c, d) == QuantityName(Quantity(c)) \o PhaseSuffix(PhaseOfC(c)) \o (IF d = 8 THEN "_total" ELSE "")
ASSUME NamesFollowRules == \A i \in 1..Len(NameTable) : LET k == NameTable[i][1] IN
          k[2] \in {7, 8} => (CatalogueDomain(k[1], k[2], k[3]) /\ NameTable[i][2] = RuleName(k[1], k[2]))
ASSUME NamesAreAFunction == \A i, j \in 1..Len(NameTable) : NameTable[i][1] = NameTable[j][1] => i = j
=============================================================================
