-------------------------------- MODULE MC_Obis --------------------------------
(* Design-level losslessness of the two renderings: on the value-group space below, the reduced form is   *)
(* injective on all groups (so a parser CAN recover them), the six-part form is injective on fully         *)
(* specified groups, and no reduced string of one group tuple is a six-part string of another.             *)
(* One state per group tuple; the invariant ranges over all other tuples.                                  *)
EXTENDS Obis
Vals == {0, 1, 25}
Opt == Vals \cup {None}
Groups == {<<a, b, c, d, e, f>> : a \in Opt, b \in Opt, c \in Vals, d \in Vals, e \in Opt, f \in Opt}
VARIABLES ab, g            \* two levels so that the 16 workers share the tuples (initial states are checked serially)
Init == ab \in Opt \X Opt /\ g = <<>>
Next == g = <<>> /\ g' \in {h \in Groups : h[1] = ab[1] /\ h[2] = ab[2]} /\ UNCHANGED ab
Spec == Init /\ [][Next]_<<ab, g>>
ReducedInjective == g # <<>> => \A h \in Groups : Reduced(g) = Reduced(h) => g = h
SixInjective == (g # <<>> /\ AllPresent(g)) => \A h \in Groups : (AllPresent(h) /\ SixPart(g) = SixPart(h)) => g = h
NoCrossTalk == g # <<>> => \A h \in Groups : AllPresent(h) => Reduced(g) # SixPart(h)
DigitDotDigit == g # <<>> => (HasDigitDotDigit(Reduced(g)) /\ (AllPresent(g) => HasDigitDotDigit(SixPart(g))))
=============================================================================
