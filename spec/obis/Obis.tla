--------------------------------- MODULE Obis ---------------------------------
(***************************************************************************)
(* OBIS codes (IEC 62056-61): six value groups A..F, 0..255.               *)
(*   groups = <<A, B, C, D, E, F>>, None (= -1) for an absent A, B, E, F   *)
(*   reduced form   [A-][B:]C.D[.E][*F]                                    *)
(*   six-part form  A.B.C.D.E.F                                            *)
(* Text is a sequence of octets (ASCII).                                   *)
(***************************************************************************)
EXTENDS Decimal, TLC
None == -1
DASH == 45
COLON == 58
DOT == 46
ASTER == 42
Dig(n) == [i \in 1..Len(NatDigits(n)) |-> 48 + NatDigits(n)[i]]      \* decimal text of n

Reduced(g) == (IF g[1] # None THEN Dig(g[1]) \o <<DASH>> ELSE <<>>)
              \o (IF g[2] # None THEN Dig(g[2]) \o <<COLON>> ELSE <<>>)
              \o Dig(g[3]) \o <<DOT>> \o Dig(g[4])
              \o (IF g[5] # None THEN <<DOT>> \o Dig(g[5]) ELSE <<>>)
              \o (IF g[6] # None THEN <<ASTER>> \o Dig(g[6]) ELSE <<>>)
SixPart(g) == Dig(g[1]) \o <<DOT>> \o Dig(g[2]) \o <<DOT>> \o Dig(g[3]) \o <<DOT>> \o Dig(g[4]) \o <<DOT>> \o Dig(g[5]) \o <<DOT>> \o Dig(g[6])
CDE(g) == Dig(g[3]) \o <<DOT>> \o Dig(g[4]) \o <<DOT>> \o (IF g[5] = None THEN <<78, 111, 110, 101>> ELSE Dig(g[5]))   \* str(None) = "None"

IsDigitC(c) == c \in 48..57
HasDigitDotDigit(s) == \E i \in 1..(Len(s) - 2) : IsDigitC(s[i]) /\ s[i + 1] = DOT /\ IsDigitC(s[i + 2])
WellFormedGroups(g) == /\ Len(g) = 6 /\ g[3] \in 0..255 /\ g[4] \in 0..255
                       /\ \A i \in {1, 2, 5, 6} : g[i] \in 0..255 \/ g[i] = None
AllPresent(g) == \A i \in 1..6 : g[i] # None
\* the reduced form drops an optional group that is zero, so the round trip is promised only here:
RoundTripDomain(g) == \A i \in {1, 2, 5, 6} : g[i] = None \/ g[i] > 0
=============================================================================
