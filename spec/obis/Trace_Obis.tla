------------------------------ MODULE Trace_Obis ------------------------------
(* Judge recorded operations of han/obis.py (C20).  record = [id, canary, kind, ...]:           *)
(*  "parse"     [form, groups, text, raised, got]   text must be the spec's rendering of groups   *)
(*  "malformed" [text, raised]                      no digit.digit anywhere => ValueError         *)
(*  "roundtrip" [groups, text, raised, got]         parse(to_reduced_str(g)) = g on the domain    *)
(*  "eq"        [g1, g2, eq, hash_eq, eq_str, str_ok, cde, eqs]                                   *)
EXTENDS Obis, Json, IOUtils, ObisMap
Bad(t, c) == [id |-> t.id, ok |-> FALSE, clause |-> c, drift |-> ""]
Good(t) == [id |-> t.id, ok |-> TRUE, clause |-> "", drift |-> ""]
\* growth (DESIGN §12): filter_group_cde keeps groups C, D, E and drops the rest; a mismatch is DRIFT, not a violation of C20
FilterCDE(g) == <<None, None, g[3], g[4], g[5], None>>
\* growth (DESIGN §12): the registry tables of han/obis_map.py are exactly ObisMap!NameTable, and name_obis_map is its inverse
RegistryPairs == {<<NameTable[i][1], NameTable[i][2]>> : i \in 1..Len(NameTable)}
RegistryOK(t) == /\ t.unparsable = 0 /\ t.inverse_ok /\ t.size = Len(NameTable) /\ Len(t.table) = Len(NameTable)
                 /\ {<<t.table[i].cde, t.table[i].name>> : i \in 1..Len(t.table)} = RegistryPairs
\* growth: the register catalogue OBIS_CODES follows the rules of ObisMap (unit, category, phase from the code), has no duplicates
\* and covers every measurement the decoders name
EntryOK(x) == /\ Len(x.cde) = 3 /\ x.a = None /\ x.b = None /\ x.f = None
              /\ CatalogueDomain(x.cde[1], x.cde[2], x.cde[3])
              /\ x.unit = UnitOfCode(x.cde[1], x.cde[2]) /\ x.category = CategoryOfCode(x.cde[1], x.cde[2]) /\ x.phase = PhaseOfC(x.cde[1])
CatalogueOK(t) == /\ \A i \in 1..Len(t.codes) : EntryOK(t.codes[i])
                  /\ \A i, j \in 1..Len(t.codes) : i # j => t.codes[i].cde # t.codes[j].cde
                  /\ NamedMeasurements \subseteq {t.codes[i].cde : i \in 1..Len(t.codes)}
Verdict(t) ==
  IF t.kind = "catalogue" THEN (IF CatalogueOK(t) THEN Good(t) ELSE [Good(t) EXCEPT !.drift = "obis.catalogue"])
  ELSE IF t.kind = "registry" THEN (IF RegistryOK(t) THEN Good(t) ELSE [Good(t) EXCEPT !.drift = "obis.registry"])
  ELSE IF t.kind = "parse" THEN
     IF ~WellFormedGroups(t.groups) \/ (t.form = "six" /\ ~AllPresent(t.groups)) THEN Bad(t, "plan")
     ELSE IF t.text # (IF t.form = "six" THEN SixPart(t.groups) ELSE Reduced(t.groups)) THEN Bad(t, "plan")
     ELSE IF t.raised # "" THEN Bad(t, "C20.parse_raised")
     ELSE IF t.got # t.groups THEN Bad(t, "C20.parse_groups") ELSE Good(t)
  ELSE IF t.kind = "malformed" THEN
     IF HasDigitDotDigit(t.text) THEN Good(t)                      \* the statement does not bind these
     ELSE IF t.raised # "ValueError" THEN Bad(t, "C20.malformed_accepted") ELSE Good(t)
  ELSE IF t.kind = "roundtrip" THEN
     IF ~WellFormedGroups(t.groups) THEN Bad(t, "plan")
     ELSE IF ~RoundTripDomain(t.groups) THEN Good(t)
     ELSE IF t.raised # "" THEN Bad(t, "C20.roundtrip_raised")
     ELSE IF t.got # t.groups THEN Bad(t, "C20.roundtrip")
     ELSE IF t.str_got # t.groups THEN [Good(t) EXCEPT !.drift = "obis.str_roundtrip"] ELSE Good(t)   \* growth: str() parses back as well
  ELSE IF t.kind = "eq" THEN
     IF t.eq # (t.g1 = t.g2) THEN Bad(t, "C20.eq")
     ELSE IF \E i \in 1..Len(t.eqs) : t.eqs[i] # (t.g1 = t.g2) THEN Bad(t, "C20.eq")     \* the same question after hashing / printing / the other way round
     ELSE IF t.eq /\ ~t.hash_eq THEN Bad(t, "C20.hash")
     ELSE IF t.str_ok /\ t.eq_str # (t.g1 = t.g2) THEN Bad(t, "C20.eq_string")
     ELSE IF ~WellFormedGroups(t.g3) \/ t.text3 # Reduced(t.g3) THEN Bad(t, "plan")
     ELSE IF \E i \in 1..Len(t.eqs3) : t.eqs3[i] # (t.g1 = t.g3) THEN Bad(t, "C20.eq_string")   \* the string is parsed, also after the object was printed
     ELSE IF t.cde # CDE(t.g1) THEN Bad(t, "C20.cde")
     ELSE IF t.fcde # FilterCDE(t.g1) THEN [Good(t) EXCEPT !.drift = "obis.filter_group_cde"] ELSE Good(t)
  ELSE Bad(t, "plan")
Traces == ndJsonDeserialize(IOEnv.TRACE_FILE)
ASSUME JsonSerialize(IOEnv.OUT_FILE, [i \in 1..Len(Traces) |-> Verdict(Traces[i])])
=============================================================================
