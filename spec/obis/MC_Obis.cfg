SPECIFICATION Spec
INVARIANT ReducedInjective
INVARIANT SixInjective
INVARIANT NoCrossTalk
INVARIANT DigitDotDigit
CHECK_DEADLOCK FALSE
