SPECIFICATION Spec
CONSTANTS
 Fixed = TRUE
 MaxAtt = 3
 Horizon = 12
 SlowLat = 2
 MaxDelay = 4
 BrkThr = 3
 BrkSleep = 3
 ModelTaskBound = 3
 MaxRuns = 2
INVARIANT NoContractViolation
INVARIANT BoundedTasks
INVARIANT AllClosed
INVARIANT NoOrphan
INVARIANT AlwaysTrying
CHECK_DEADLOCK FALSE
