------------------------------ MODULE Trace_Conn ------------------------------
(* Judge recorded executions of the real ConnectionManager on the virtual-time  *)
(* loop against the contract monitor ConnMgr.                                   *)
(* trace = [id, canary, cfg : [max_delay, threshold, sleep], events : Seq(event)] *)
(* every event carries all fields: [e, t, i, ok, cancelled, tasks]              *)
EXTENDS ConnMgr, TLC, Json, IOUtils
WellFormed(t) == /\ \A k \in 1..(Len(t.events) - 1) : t.events[k].t <= t.events[k + 1].t
                 /\ Len(t.events) >= 1 /\ t.events[Len(t.events)].e = "end"
Verdict(t) == IF ~WellFormed(t) THEN [id |-> t.id, ok |-> FALSE, fails |-> <<[c |-> "shape", at |-> 0]>>]
              ELSE LET r == Monitor(t.cfg, t.events) IN [id |-> t.id, ok |-> r.bad = <<>>, fails |-> r.bad]
Traces == ndJsonDeserialize(IOEnv.TRACE_FILE)
ASSUME JsonSerialize(IOEnv.OUT_FILE, [i \in 1..Len(Traces) |-> Verdict(Traces[i])])
=============================================================================
