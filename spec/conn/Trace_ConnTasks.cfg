SPECIFICATION TSpec
CONSTANTS
 Fixed = TRUE
 MaxAtt = 8
 Horizon = 40
 SlowLat = 3
 MaxDelay = 4
 BrkThr = 3
 BrkSleep = 5
 ModelTaskBound = 3
 MaxRuns = 2
CONSTRAINT Mark
POSTCONDITION Report
CHECK_DEADLOCK FALSE
