---------------------------- MODULE ConnMgrTasks ----------------------------
(***************************************************************************)
(* Implementation-shaped model of ConnectionManager.connect_loop / close / *)
(* _try_connect (han/meter_connection.py) at the grain of asyncio tasks:   *)
(* one action per stretch of coroutine code between two awaits, plus the   *)
(* environment (factory outcomes, connection loss, the user's close()).    *)
(*                                                                         *)
(*  main coroutine (mpc):                                                  *)
(*    "top"    about to evaluate  while not closing                        *)
(*    "wait1"  await wait({connect_task, closing_task})                    *)
(*    "wait2"  await wait({protocol.done, closing_task2})                  *)
(*    "done"   connect_loop returned                                       *)
(*  connect tasks task[k] (one per loop iteration):                        *)
(*    "start"  created, not run yet   "sleep" in the back-off sleep        *)
(*    "factory" awaiting the connection factory   "fin" finished/cancelled *)
(*  waiters    number of pending  closing.wait()  tasks                    *)
(*                                                                         *)
(* Ready steps interleave arbitrarily (over-approximates asyncio's FIFO    *)
(* ready queue: sound for safety); time advances (Tick) only when nothing  *)
(* is ready.  Every action feeds the events it makes visible at the public *)
(* surface to the contract monitor ConnMgr!OnEvent; the invariant          *)
(* NoContractViolation is Impl => Contract.                                *)
(*                                                                         *)
(* MaxRuns > 1 lets the environment call connect_loop() again after it has *)
(* returned (and close() between two runs).                                *)
(*                                                                         *)
(* Fixed = TRUE is the repaired tree (cancel both tasks after the first    *)
(* wait, close a transport obtained concurrently with close(), cancel the  *)
(* second waiter); Fixed = FALSE is the pinned tree 22a5dfc, on which TLC  *)
(* finds attempt_after_close, transport_left_open and too_many_tasks.      *)
(***************************************************************************)
EXTENDS ConnMgr, Integers, TLC
CONSTANTS Fixed, MaxAtt, Horizon, SlowLat, MaxDelay, BrkThr, BrkSleep, ModelTaskBound, MaxRuns
Tasks == 1..(MaxAtt + 1)
Cfg == [max_delay |-> MaxDelay, threshold |-> BrkThr, sleep |-> BrkSleep]

VARIABLES now, closing, closeCalled, conn, mpc, task, tr, pdone, delay, lastLoss, brk, waiters, natt, nspawn, mon, runs
vars == <<now, closing, closeCalled, conn, mpc, task, tr, pdone, delay, lastLoss, brk, waiters, natt, nspawn, mon, runs>>

NoTask == [st |-> "none", at |-> 0, oc |-> "na", id |-> -1]        \* id = number of the attempt (factory call) made by this task
Pending == Cardinality({k \in Tasks : task[k].st \in {"start", "sleep", "factory"}}) + waiters
Ev(e, i, ok, canc) == [e |-> e, t |-> now * 1000, i |-> i, ok |-> ok, cancelled |-> canc, tasks |-> Pending + 2]
Feed(m, evs) == LET r == FoldLeft(LAMBDA s, e : OnEvent(Cfg, s, e), m, evs) IN [r EXCEPT !.n = 0]

Init == /\ now = 0 /\ closing = FALSE /\ closeCalled = FALSE /\ conn = 0
        /\ mpc = "top" /\ task = [k \in Tasks |-> NoTask] /\ tr = [k \in Tasks |-> "none"] /\ pdone = [k \in Tasks |-> FALSE]
        /\ delay = 0 /\ lastLoss = -1 /\ brk = FALSE /\ waiters = 0 /\ natt = 0 /\ nspawn = 0 /\ mon = S0 /\ runs = 1

CurDelay == MinI(delay, MaxDelay)                                                   \* back_off_connect_error.current_delay_sec
BackOffTime == IF CurDelay > 0 \/ brk THEN MaxI(CurDelay, IF brk THEN BrkSleep ELSE 0) ELSE 0      \* _get_back_off_time
NextDelay == IF delay = 0 THEN 1 ELSE MinI(delay * 2, 4096)

\* ---- main: while-test and creation of the two tasks (no await in between)
Spawn(tk, w, evs) == /\ nspawn < MaxAtt + 1 /\ nspawn' = nspawn + 1
                     /\ task' = [tk EXCEPT ![nspawn + 1] = [st |-> "start", at |-> 0, oc |-> "na", id |-> -1]]
                     /\ waiters' = w + 1 /\ mpc' = "wait1" /\ mon' = Feed(mon, evs) /\ UNCHANGED closing
Finish(tk, w, evs) == /\ closing' = FALSE /\ mpc' = "done" /\ task' = tk /\ waiters' = w
                      /\ mon' = Feed(mon, evs \o <<Ev("returned", 0, FALSE, FALSE)>>) /\ UNCHANGED nspawn
MainStart == /\ mpc = "top"
             /\ IF closing THEN Finish(task, waiters, <<>>) ELSE Spawn(task, waiters, <<>>)
             /\ UNCHANGED <<now, closeCalled, conn, tr, pdone, delay, lastLoss, brk, natt>>

\* ---- connect task
Attempt(k, oc, slow) ==
   /\ natt' = natt + 1
   /\ IF slow THEN /\ task' = [task EXCEPT ![k] = [st |-> "factory", at |-> now + SlowLat, oc |-> oc, id |-> natt]]
                   /\ mon' = Feed(mon, <<Ev("attempt", natt, FALSE, FALSE)>>) /\ UNCHANGED <<conn, tr, delay>>
      ELSE /\ task' = [task EXCEPT ![k] = [st |-> "fin", at |-> 0, oc |-> oc, id |-> natt]]
           /\ mon' = Feed(mon, <<Ev("attempt", natt, FALSE, FALSE), Ev("attempt_end", natt, oc = "ok", FALSE)>>)
           /\ IF oc = "ok" THEN conn' = k /\ tr' = [tr EXCEPT ![k] = "open"] /\ delay' = 0
              ELSE conn' = 0 /\ delay' = NextDelay /\ UNCHANGED tr
GiveUp(k) == task' = [task EXCEPT ![k] = [st |-> "fin", at |-> 0, oc |-> "na", id |-> -1]] /\ UNCHANGED <<natt, conn, tr, delay, mon>>
TaskStart(k) == /\ task[k].st = "start"
                /\ IF BackOffTime > 0
                   THEN task' = [task EXCEPT ![k] = [st |-> "sleep", at |-> now + BackOffTime, oc |-> "na", id |-> -1]] /\ UNCHANGED <<natt, conn, tr, delay, mon>>
                   ELSE IF ~closing /\ natt < MaxAtt THEN \E oc \in {"ok", "fail"}, slow \in BOOLEAN : Attempt(k, oc, slow)
                        ELSE GiveUp(k)
                /\ UNCHANGED <<now, closing, closeCalled, mpc, pdone, lastLoss, brk, waiters, nspawn>>
TaskWake(k) == /\ task[k].st = "sleep" /\ now >= task[k].at
               /\ IF ~closing /\ natt < MaxAtt THEN \E oc \in {"ok", "fail"}, slow \in BOOLEAN : Attempt(k, oc, slow) ELSE GiveUp(k)
               /\ UNCHANGED <<now, closing, closeCalled, mpc, pdone, lastLoss, brk, waiters, nspawn>>
TaskFactoryDone(k) == /\ task[k].st = "factory" /\ now >= task[k].at
                      /\ task' = [task EXCEPT ![k].st = "fin"]
                      /\ mon' = Feed(mon, <<Ev("attempt_end", task[k].id, task[k].oc = "ok", FALSE)>>)
                      /\ IF task[k].oc = "ok" THEN conn' = k /\ tr' = [tr EXCEPT ![k] = "open"] /\ delay' = 0
                         ELSE conn' = 0 /\ delay' = NextDelay /\ UNCHANGED tr
                      /\ UNCHANGED <<now, closing, closeCalled, mpc, pdone, lastLoss, brk, waiters, natt, nspawn>>

\* ---- main wakes from the first wait
Cur == nspawn
MainWake1 ==
  /\ mpc = "wait1" /\ (task[Cur].st = "fin" \/ closing)
  /\ LET inFactory == task[Cur].st = "factory"
         tk == IF Fixed /\ task[Cur].st # "fin" THEN [task EXCEPT ![Cur].st = "fin"] ELSE task      \* connect_task.cancel()
         cev == IF Fixed /\ inFactory THEN <<Ev("attempt_end", task[Cur].id, FALSE, TRUE)>> ELSE <<>>
         w1 == IF Fixed THEN waiters - 1 ELSE (IF closing THEN 0 ELSE waiters)    \* pinned: waiters only end when closing is set
     IN IF conn # 0
        THEN IF Fixed /\ closing
             THEN \* transport obtained concurrently with close(): close it, then the while-test ends the loop
                  /\ tr' = [tr EXCEPT ![conn] = "closed"] /\ pdone' = [pdone EXCEPT ![conn] = TRUE] /\ conn' = 0
                  /\ Finish(tk, w1, cev \o <<Ev("tclose", task[conn].id, FALSE, FALSE)>>)
             ELSE /\ mpc' = "wait2" /\ waiters' = w1 + 1 /\ task' = tk /\ mon' = Feed(mon, cev)
                  /\ UNCHANGED <<conn, tr, pdone, closing, nspawn>>
        ELSE /\ UNCHANGED <<conn, tr, pdone>>
             /\ IF closing THEN Finish(tk, w1, cev) ELSE Spawn(tk, w1, cev)
  /\ UNCHANGED <<now, closeCalled, delay, lastLoss, brk, natt>>
MainWake2 ==
  /\ mpc = "wait2" /\ conn # 0 /\ (pdone[conn] \/ closing)
  /\ LET w1 == IF Fixed THEN waiters - 1 ELSE (IF closing THEN 0 ELSE waiters) IN
     /\ IF ~closing THEN brk' = (IF lastLoss >= 0 THEN (now - lastLoss) < BrkThr ELSE brk) /\ lastLoss' = now
        ELSE UNCHANGED <<brk, lastLoss>>
     /\ conn' = 0
     /\ IF closing THEN Finish(task, w1, <<>>) ELSE Spawn(task, w1, <<>>)
  /\ UNCHANGED <<now, closeCalled, tr, pdone, delay, natt>>
MainWake2b == \* close() already cleared the connection
  /\ mpc = "wait2" /\ conn = 0 /\ closing
  /\ Finish(task, IF Fixed THEN waiters - 1 ELSE 0, <<>>)
  /\ UNCHANGED <<now, closeCalled, conn, tr, pdone, delay, lastLoss, brk, natt>>

\* ---- environment
EnvClose == /\ ~closeCalled /\ mpc # "done" /\ closeCalled' = TRUE /\ closing' = TRUE
            /\ IF conn # 0 THEN /\ tr' = [tr EXCEPT ![conn] = "closed"] /\ pdone' = [pdone EXCEPT ![conn] = TRUE] /\ conn' = 0
                                /\ mon' = Feed(mon, <<Ev("close", 0, FALSE, FALSE), Ev("tclose", task[conn].id, FALSE, FALSE)>>)
               ELSE UNCHANGED <<tr, pdone, conn>> /\ mon' = Feed(mon, <<Ev("close", 0, FALSE, FALSE)>>)
            /\ UNCHANGED <<now, mpc, task, delay, lastLoss, brk, waiters, natt, nspawn>>
EnvLoss(k) == /\ tr[k] = "open" /\ tr' = [tr EXCEPT ![k] = "closed"] /\ pdone' = [pdone EXCEPT ![k] = TRUE]
              /\ mon' = Feed(mon, <<Ev("lost", task[k].id, FALSE, FALSE)>>)
              /\ UNCHANGED <<now, closing, closeCalled, conn, mpc, task, delay, lastLoss, brk, waiters, natt, nspawn>>
Ready == \/ mpc = "top" \/ \E k \in Tasks : task[k].st = "start" \/ (task[k].st \in {"sleep", "factory"} /\ now >= task[k].at)
         \/ (mpc = "wait1" /\ (task[Cur].st = "fin" \/ closing)) \/ (mpc = "wait2" /\ (closing \/ (conn # 0 /\ pdone[conn])))
Tick == /\ ~Ready /\ now < Horizon /\ now' = now + 1
        /\ UNCHANGED <<closing, closeCalled, conn, mpc, task, tr, pdone, delay, lastLoss, brk, waiters, natt, nspawn, mon>>
\* connect_loop() called again after it returned; close() while no run is in progress only sets the closing event
EnvRestart == /\ mpc = "done" /\ runs < MaxRuns /\ runs' = runs + 1 /\ mpc' = "top" /\ closeCalled' = FALSE
              /\ mon' = Feed(mon, <<Ev("start", 0, FALSE, FALSE)>>)
              /\ UNCHANGED <<now, closing, conn, task, tr, pdone, delay, lastLoss, brk, waiters, natt, nspawn>>
EnvCloseIdle == /\ mpc = "done" /\ ~closing /\ runs < MaxRuns /\ closing' = TRUE
                /\ mon' = Feed(mon, <<Ev("close", 0, FALSE, FALSE)>>)
                /\ UNCHANGED <<now, closeCalled, conn, mpc, task, tr, pdone, delay, lastLoss, brk, waiters, natt, nspawn, runs>>
\* one top-level disjunct per action, so that TLC's coverage reports every action by name (never-taken actions end up in the evidence)
AMainStart == (MainStart /\ UNCHANGED runs)
AMainWake1 == (MainWake1 /\ UNCHANGED runs)
AMainWake2 == (MainWake2 /\ UNCHANGED runs)
AMainWake2b == (MainWake2b /\ UNCHANGED runs)
AEnvClose == (EnvClose /\ UNCHANGED runs)
ATick == (Tick /\ UNCHANGED runs)
ATaskStart == \E k \in Tasks : (TaskStart(k) /\ UNCHANGED runs)
ATaskWake == \E k \in Tasks : (TaskWake(k) /\ UNCHANGED runs)
ATaskFactoryDone == \E k \in Tasks : (TaskFactoryDone(k) /\ UNCHANGED runs)
AEnvLoss == \E k \in Tasks : (EnvLoss(k) /\ UNCHANGED runs)
Next == AMainStart \/ AMainWake1 \/ AMainWake2 \/ AMainWake2b \/ AEnvClose \/ ATick
        \/ ATaskStart \/ ATaskWake \/ ATaskFactoryDone \/ AEnvLoss
        \/ EnvRestart \/ EnvCloseIdle
Spec == Init /\ [][Next]_vars

\* ---- Impl => Contract
NoContractViolation == mon.bad = <<>>
BoundedTasks == Pending <= ModelTaskBound
Quiescent == mpc = "done" /\ \A k \in Tasks : task[k].st \in {"none", "fin"}
AllClosed == Quiescent => (mon.live = {} /\ \A k \in Tasks : tr[k] # "open")
\* "keeps reconnecting after every failure and every loss until it is closed", as a state invariant: while nobody has asked it to stop,
\* the manager is never idle - it is about to spawn an attempt, waits for a task that exists (and therefore ends), or holds a connection
\* whose loss will wake it
AlwaysTrying ==
  (~closing /\ mpc # "done") =>
     \/ mpc = "top"
     \/ (mpc = "wait1" /\ task[Cur].st \in {"start", "sleep", "factory", "fin"})
     \/ (mpc = "wait2" /\ conn # 0 /\ (tr[conn] = "open" \/ pdone[conn]))
\* Witnesses (vacuity guards): invariants TLC must find VIOLATED
W_ReconnectedAfterLoss == ~(\E j \in Tasks, k \in Tasks : j # k /\ tr[j] = "closed" /\ tr[k] = "open")
W_CloseDuringAttempt == ~(closing /\ \E k \in Tasks : task[k].st = "factory")
W_CloseDuringBackOff == ~(closing /\ \E k \in Tasks : task[k].st = "sleep")
W_BreakerTripped == ~brk
W_BackOffDoubled == ~(delay >= 2)
W_SecondRunConnected == ~(runs >= 2 /\ \E k \in Tasks : tr[k] = "open")
W_ReturnedWithAllClosed == ~(Quiescent /\ \E k \in Tasks : tr[k] = "closed")
NoOrphan == (Fixed /\ mpc = "done") => \A k \in Tasks : task[k].st \in {"none", "fin"}
=============================================================================
