----------------------------- MODULE Trace_BackOff -----------------------------
(* Judge recorded failure()/reset() sequences of the real strategy object.     *)
(* trace = [id, canary, max_delay, ops : Seq("f"|"r"), delays : Seq(Int)]      *)
(*   delays[i] = current_delay_sec after the i-th operation; init = before any *)
EXTENDS BackOff, Sequences, SequencesExt, TLC, Json, IOUtils
Verdict(t) ==
  LET r == FoldLeft(LAMBDA acc, i :
             LET n2 == IF t.ops[i] = "f" THEN acc[1] + 1 ELSE 0 IN
             <<n2, IF acc[2] = 0 /\ t.delays[i] # Delay(n2, t.max_delay) THEN i ELSE acc[2]>>,
           <<0, 0>>, [i \in 1..Len(t.ops) |-> i])
  IN IF t.init # 0 THEN [id |-> t.id, ok |-> FALSE, clause |-> "C18.initial", at |-> 0]
     ELSE IF Len(t.delays) # Len(t.ops) THEN [id |-> t.id, ok |-> FALSE, clause |-> "shape", at |-> 0]
     ELSE IF r[2] # 0 THEN [id |-> t.id, ok |-> FALSE, clause |-> "C18.delay", at |-> r[2]]
     ELSE [id |-> t.id, ok |-> TRUE, clause |-> "", at |-> 0]
Traces == ndJsonDeserialize(IOEnv.TRACE_FILE)
ASSUME JsonSerialize(IOEnv.OUT_FILE, [i \in 1..Len(Traces) |-> Verdict(Traces[i])])
=============================================================================
