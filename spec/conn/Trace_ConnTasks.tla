---------------------------- MODULE Trace_ConnTasks ----------------------------
(***************************************************************************)
(* Trace validation of recorded executions of the real ConnectionManager   *)
(* against the TASK MODEL ConnMgrTasks (implementation-shaped spec), many  *)
(* traces per TLC run.  The model's internal steps (task creation, the     *)
(* back-off sleep starting, wake-ups of the main coroutine, time passing)  *)
(* are not logged; they are taken silently, bounded by the time stamp of   *)
(* the next logged event.  A model step that makes events visible must be  *)
(* explained by exactly the next k (1..3) lines of the trace: same time    *)
(* stamp, same task count at an attempt, and the same effect on the        *)
(* contract monitor (attempt ids, outcomes, cancelled/ok flags, close).    *)
(*                                                                         *)
(* Acceptance is recorded per trace as the furthest line reached (TLCSet   *)
(* register tid, -workers 1); the POSTCONDITION writes [reached, length]   *)
(* for every trace.  A trace that is not accepted is DRIFT (the code is no *)
(* longer a behaviour of the task model), not a property violation.        *)
(***************************************************************************)
EXTENDS ConnMgrTasks, Json, IOUtils
Traces == ndJsonDeserialize(IOEnv.TRACE_FILE)
VARIABLES tid, l
tvars == <<vars, tid, l>>
Evs(t) == Traces[t].events
TInit == Init /\ tid \in 1..Len(Traces) /\ l = 1
Take(k) == SubSeq(Evs(tid), l, l + k - 1)
Explains(k) ==
   /\ l + k - 1 <= Len(Evs(tid))
   /\ \A i \in 1..k : Take(k)[i].t = now * 1000
   /\ \A i \in 1..k : Take(k)[i].e = "attempt" => Take(k)[i].tasks = Pending + 2
   /\ mon' = Feed(mon, Take(k))
NextTime == IF l <= Len(Evs(tid)) THEN Evs(tid)[l].t ELSE now * 1000
TNext == /\ Next
         /\ \E k \in 0..3 : Explains(k) /\ l' = l + k
         /\ now' * 1000 <= NextTime            \* silent time steps stop at the next logged event
         /\ UNCHANGED tid
TSpec == TInit /\ [][TNext]_tvars
\* furthest line reached per trace
Mark == TLCSet(tid, IF TLCGet(tid) < l THEN l ELSE TLCGet(tid))
ASSUME \A i \in 1..Len(Traces) : TLCSet(i, 0)
Report == JsonSerialize(IOEnv.OUT_FILE, [i \in 1..Len(Traces) |-> [id |-> Traces[i].id, reached |-> TLCGet(i) - 1, length |-> Len(Evs(i))]])
=============================================================================
