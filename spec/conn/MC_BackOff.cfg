SPECIFICATION Spec
CONSTANTS
 MaxOps = 14
 MaxDelays = {1, 2, 3, 5, 60, 3600}
INVARIANT Agrees
CHECK_DEADLOCK FALSE
