------------------------------ MODULE MC_BackOff ------------------------------
(* All failure()/reset() sequences up to MaxOps, for every max_delay of MaxDelays: Impl => Contract. *)
EXTENDS BackOff
CONSTANTS MaxOps, MaxDelays
VARIABLES d, n, ops, maxd
Init == d = 0 /\ n = 0 /\ ops = 0 /\ maxd \in MaxDelays
Failure == ops < MaxOps /\ d' = ImplFailure(d) /\ n' = n + 1 /\ ops' = ops + 1 /\ UNCHANGED maxd
Reset == ops < MaxOps /\ d' = ImplReset(d) /\ n' = 0 /\ ops' = ops + 1 /\ UNCHANGED maxd
Next == Failure \/ Reset
Spec == Init /\ [][Next]_<<d, n, ops, maxd>>
Agrees == ImplCurrent(d, maxd) = Delay(n, maxd)
=============================================================================
