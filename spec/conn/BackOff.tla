------------------------------- MODULE BackOff -------------------------------
(***************************************************************************)
(* Reconnect pacing (C18).                                                 *)
(* Contract: after n failure() calls since the last reset() the strategy   *)
(* reports  Delay(n, max) = min(2^(n-1), max)  seconds (0 for n = 0).      *)
(* Implementation shape (ExponentialBackOff): an integer that doubles on   *)
(* failure (0 -> 1), is zeroed by reset, and is capped when read.          *)
(***************************************************************************)
EXTENDS Integers
MinI(a, b) == IF a < b THEN a ELSE b
MaxI(a, b) == IF a > b THEN a ELSE b
Pow2(n) == IF n > 24 THEN 16777216 ELSE 2 ^ n          \* saturates far above any max_delay used (<= 3600)
Delay(n, maxd) == IF n = 0 THEN 0 ELSE MinI(Pow2(n - 1), maxd)

\* implementation-shaped
ImplFailure(d) == IF d * 2 = 0 THEN 1 ELSE MinI(d * 2, 16777216)    \* Python ints do not overflow; the model saturates
ImplReset(d) == 0
ImplCurrent(d, maxd) == IF d < maxd THEN d ELSE maxd
=============================================================================
