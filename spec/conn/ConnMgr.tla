------------------------------- MODULE ConnMgr -------------------------------
(***************************************************************************)
(* Contract of ConnectionManager (C17, C18) as a monitor over the events   *)
(* visible at the public surface: the user-supplied connection factory,    *)
(* the transports it hands out, close(), and the return of connect_loop(). *)
(* Time is virtual, in milliseconds.                                       *)
(*                                                                         *)
(*  event        meaning                                                   *)
(*  attempt      the factory is called (i = attempt number, tasks = tasks  *)
(*               pending in the loop at that moment)                       *)
(*  attempt_end  the factory returned a transport (ok), raised (fail) or   *)
(*               was cancelled                                             *)
(*  lost         the environment drops live connection i                   *)
(*  tclose       close() was called on transport i                         *)
(*  close        the user calls ConnectionManager.close()                  *)
(*  returned     connect_loop() returned                                   *)
(*  start        connect_loop() is called again on the same manager (the   *)
(*               first run starts implicitly at time 0)                    *)
(*  end          quiescence, long after the return (tasks still pending)   *)
(*                                                                         *)
(* Clauses (names are what a rejected trace reports):                      *)
(*  C17.attempt_after_close     no attempt is started after close()        *)
(*  C17.attempt_while_busy      a new attempt only after the previous      *)
(*                              connection / attempt has ended             *)
(*  C17.two_live                never more than one live connection        *)
(*  C17.return_not_prompt       connect_loop() returns at the virtual time *)
(*                              of close() (no back-off / attempt waited)  *)
(*  C17.returned_without_close  the loop only ends when closed             *)
(*  C17.no_reconnect            after a failure or loss the next attempt   *)
(*                              comes (within the pacing upper bound)      *)
(*  C17.too_many_tasks          pending tasks <= TaskBound, always         *)
(*  C17.transport_left_open     after close() every transport obtained is  *)
(*                              closed (checked at quiescence and when a   *)
(*                              new run starts)                            *)
(*  C18.attempt_too_early       attempt >= failure + min(2^(n-1), max)     *)
(*                              resp. >= 2nd quick loss + breaker sleep    *)
(*  C18.attempt_too_late        attempt <= trigger + max(back-off, sleep)  *)
(*                              + Slack                                    *)
(***************************************************************************)
EXTENDS BackOff, Sequences, SequencesExt, FiniteSets
TaskBound == 8
Slack == 500

S0 == [live |-> {}, pend |-> -1, closeT |-> -1, nfail |-> 0, trigT |-> -1, upT |-> 0, trigKind |-> "none",
       lossT |-> -1, prevLossT |-> -1, running |-> TRUE, pendingClose |-> FALSE, bad |-> <<>>, n |-> 0]
\* trigT = time of the failure / loss the lower pacing bound counts from; upT = time the upper bound counts from (the
\* later of that and the start of the current connect_loop() run); running = a connect_loop() run is in progress;
\* pendingClose = close() was called while no run was in progress (it makes the next run return at once)
Fail(s, c) == [s EXCEPT !.bad = Append(s.bad, [c |-> c, at |-> s.n])]
When(cond, s, c) == IF cond THEN Fail(s, c) ELSE s

DelayMs(cfg, n) == 1000 * Delay(n, cfg.max_delay)
TwoQuickLosses(cfg, s) == s.prevLossT >= 0 /\ s.lossT - s.prevLossT < 1000 * cfg.threshold
Lower(cfg, s) == IF s.trigKind = "fail" THEN s.trigT + DelayMs(cfg, s.nfail)
                 ELSE IF s.trigKind = "loss" /\ TwoQuickLosses(cfg, s) THEN s.trigT + 1000 * cfg.sleep
                 ELSE 0
Upper(cfg, s) == IF s.trigKind = "none" THEN s.upT + Slack
                 ELSE s.upT + MaxI(DelayMs(cfg, s.nfail), 1000 * cfg.sleep) + Slack

OnEvent(cfg, s0, e) ==
  LET s == [s0 EXCEPT !.n = s0.n + 1] IN
  IF e.e = "attempt" THEN
     LET c1 == When(s.closeT >= 0, s, "C17.attempt_after_close")
         c2 == When(s.live # {} \/ s.pend >= 0, c1, "C17.attempt_while_busy")
         c3 == When(e.t < Lower(cfg, s), c2, "C18.attempt_too_early")
         c4 == When(s.closeT < 0 /\ e.t > Upper(cfg, s), c3, "C18.attempt_too_late")
         c5 == When(e.tasks > TaskBound, c4, "C17.too_many_tasks")
     IN [c5 EXCEPT !.pend = e.i, !.trigKind = "inflight"]
  ELSE IF e.e = "attempt_end" THEN
     IF e.cancelled THEN [s EXCEPT !.pend = -1]
     ELSE IF e.ok THEN LET s1 == [s EXCEPT !.pend = -1, !.live = s.live \cup {e.i}, !.nfail = 0, !.trigKind = "connected"] IN
                       When(Cardinality(s1.live) > 1, s1, "C17.two_live")
     ELSE [s EXCEPT !.pend = -1, !.nfail = s.nfail + 1, !.trigT = e.t, !.upT = e.t, !.trigKind = "fail"]
  ELSE IF e.e = "lost" THEN
     [s EXCEPT !.live = s.live \ {e.i}, !.prevLossT = s.lossT, !.lossT = e.t, !.trigT = e.t, !.upT = e.t,
               !.trigKind = IF s.closeT >= 0 THEN s.trigKind ELSE "loss"]
  ELSE IF e.e = "tclose" THEN [s EXCEPT !.live = s.live \ {e.i}]
  ELSE IF e.e = "close" THEN
     IF ~s.running THEN [s EXCEPT !.pendingClose = TRUE]          \* close() between two runs: takes effect when the next run starts
     ELSE LET s1 == [s EXCEPT !.closeT = IF s.closeT >= 0 THEN s.closeT ELSE e.t] IN
          When(s.closeT < 0 /\ s.trigKind \in {"fail", "loss"} /\ e.t > Upper(cfg, s), s1, "C17.no_reconnect")
  ELSE IF e.e = "returned" THEN
     LET s1 == [s EXCEPT !.running = FALSE] IN
     IF s.closeT < 0 THEN Fail(s1, "C17.returned_without_close")
     ELSE When(e.t # s.closeT, s1, "C17.return_not_prompt")
  ELSE IF e.e = "start" THEN                                     \* connect_loop() is called again on the same manager
     LET c1 == When(s.running, s, "C17.start_while_running")
         c2 == When(s.live # {}, c1, "C17.transport_left_open")
     \* the statement says nothing about pacing across a close()/restart: no lower bound for the first attempt of the new run
     \* (loss history forgotten), the upper bound counts from the start and still allows a remembered back-off or breaker sleep
     IN [c2 EXCEPT !.running = TRUE, !.closeT = IF s.pendingClose THEN e.t ELSE -1, !.pendingClose = FALSE, !.pend = -1, !.upT = e.t,
                   !.trigKind = "restart", !.lossT = -1, !.prevLossT = -1]
  ELSE IF e.e = "end" THEN
     LET c1 == When(s.live # {}, s, "C17.transport_left_open")
         c2 == When(e.tasks > TaskBound, c1, "C17.too_many_tasks")
     IN c2
  ELSE Fail(s, "unknown_event")

Monitor(cfg, events) == FoldLeft(LAMBDA s, e : OnEvent(cfg, s, e), S0, events)
=============================================================================
