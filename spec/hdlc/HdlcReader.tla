----------------------------- MODULE HdlcReader -----------------------------
(***************************************************************************)
(* Implementation-shaped specification of han/hdlc.py HdlcFrameReader      *)
(* (repaired tree).  One operator per block of code:                       *)
(*                                                                         *)
(*   Step(cfg, s, b)    _read_next: one octet from the buffer              *)
(*   OnFlag             _handle_flag_sequence, branches in the code order  *)
(*   AppendRaw          _append_to_frame incl. un-stuffing                 *)
(*   AppendOctet        HdlcFrame.append: octets, running FCS, header.update*)
(*   Start / Hunt       _start_frame / _goto_hunt_mode                     *)
(*   ReadCall           read(): extend buffer, trim when hunting, loop,    *)
(*                      trim after a frame, trim at the end (_ReaderBuffer) *)
(*   RefRun             buffer-free fold of Step over a byte string        *)
(*                                                                         *)
(* cfg = [stuffing, abort, maxlen, flagguard]; maxlen = 2047 in the code.  *)
(* Reader state s:                                                         *)
(*   hunt     _frame is None                                               *)
(*   fr       un-stuffed octets of the frame being assembled               *)
(*   crc      running FCS register of fr                                   *)
(*   cp       control position (0 = not known yet)                         *)
(*   esc      _unescape_next                                               *)
(*   lastraw, rawlen   last octet and length of _raw_frame_data            *)
(* Deliberate oddities that are modelled, not idealised: a flag inside a   *)
(* non-stuffed frame is data until the announced length is reached; a      *)
(* discarded short/aborted frame also consumes its closing flag; the raw   *)
(* history is kept through hunt mode; cp is looked up on every append      *)
(* after the third octet until both addresses have ended.                  *)
(***************************************************************************)
EXTENDS HdlcFrame, TLC

R0 == [hunt |-> TRUE, fr |-> <<>>, crc |-> InitFcs, cp |-> 0, esc |-> FALSE, lastraw |-> 0, rawlen |-> 0]

AppendOctet(s, o) == LET fr2 == Append(s.fr, o)
                         cp2 == IF s.cp = 0 /\ Len(fr2) > 3 THEN CtrlPos(fr2) ELSE s.cp
                     IN [s EXCEPT !.fr = fr2, !.crc = FStep(s.crc, o), !.cp = cp2]

AppendRaw(cfg, s, b) ==
   LET s1 == [s EXCEPT !.lastraw = b, !.rawlen = s.rawlen + 1] IN
   IF cfg.stuffing THEN
      IF s1.esc THEN AppendOctet([s1 EXCEPT !.esc = FALSE], b ^^ 32)
      ELSE IF b = ESC THEN [s1 EXCEPT !.esc = TRUE]
      ELSE AppendOctet(s1, b)
   ELSE AppendOctet(s1, b)

Start(s) == [s EXCEPT !.hunt = FALSE, !.fr = <<>>, !.crc = InitFcs, !.cp = 0, !.lastraw = 0, !.rawlen = 0]
Hunt(s)  == [s EXCEPT !.hunt = TRUE, !.fr = <<>>, !.crc = InitFcs, !.cp = 0]

HcsAvail(s) == s.cp # 0 /\ Len(s.fr) > s.cp + 2
FrameObs(s) == [octets |-> s.fr, valid |-> (s.crc = GoodFcs /\ LenField(s.fr) = Len(s.fr))]

\* result of one octet: <<new state, emitted frames (0 or 1), event>>, event \in {"none","emit","hunt"}
OnFlag(cfg, s0) ==
   LET s == [s0 EXCEPT !.esc = FALSE] IN           \* a flag ends a pending escape
   IF s.hunt THEN <<Start(s), <<>>, "none">>
   ELSE IF Len(s.fr) = 0 THEN <<[s EXCEPT !.lastraw = 0, !.rawlen = 0], <<>>, "none">>
   ELSE IF ~HcsAvail(s) THEN <<Hunt(s), <<>>, "hunt">>                       \* too short: discard
   ELSE IF cfg.abort /\ s.rawlen > 1 /\ s.lastraw = ESC THEN <<Hunt(s), <<>>, "hunt">>   \* abort sequence
   ELSE IF cfg.stuffing THEN <<Start(s), <<FrameObs(s)>>, "emit">>
   ELSE IF LenField(s.fr) = Len(s.fr) THEN <<Start(s), <<FrameObs(s)>>, "emit">>
   ELSE <<AppendRaw(cfg, s, FLAG), <<>>, "none">>                            \* flag inside the information field

\* cfg.flagguard = TRUE is the repaired _read_next (length guard after every appended octet, also after a
\* flag taken as data); FALSE is the pinned tree, kept so that the design-level counterexample found by
\* TLC (frame grows for ever on flag fill, MC_HdlcReader_pinned_flag.cfg) stays reproducible
Step(cfg, s, b) ==
   LET res == IF b = FLAG THEN OnFlag(cfg, s)
              ELSE IF s.hunt THEN <<s, <<>>, "none">>
              ELSE <<AppendRaw(cfg, s, b), <<>>, "none">>
   IN IF ~res[1].hunt /\ Len(res[1].fr) > cfg.maxlen /\ (cfg.flagguard \/ b # FLAG)
      THEN <<Hunt(res[1]), <<>>, "hunt">> ELSE res

\* ------------------------------------------------------------------ buffer-free reference
RefFrom(cfg, s, bytes) ==
   FoldLeft(LAMBDA acc, b : LET r == Step(cfg, acc[1], b) IN <<r[1], acc[2] \o r[2]>>, <<s, <<>>>>, bytes)
RefRun(cfg, bytes) == RefFrom(cfg, R0, bytes)

\* ------------------------------------------------------------------ buffer layer (_ReaderBuffer)
\* buffer = <<buf, pos>>; all octets before pos have been popped
TrimToFlag(buf, pos) == LET rest == SubSeq(buf, pos + 1, Len(buf))
                            idx  == SelectInSeq(rest, LAMBDA x : x = FLAG)
                        IN IF idx = 0 THEN <<>> ELSE SubSeq(rest, idx, Len(rest))

RECURSIVE Loop(_, _, _, _, _)
Loop(cfg, r, buf, pos, outs) ==
   IF pos >= Len(buf) THEN <<r, buf, pos, outs>>
   ELSE LET res == Step(cfg, r, buf[pos + 1]) IN
        IF res[3] = "emit" THEN Loop(cfg, res[1], SubSeq(buf, pos + 2, Len(buf)), 0, outs \o res[2])
        ELSE IF res[3] = "hunt" THEN Loop(cfg, res[1], TrimToFlag(buf, pos + 1), 0, outs)
        ELSE Loop(cfg, res[1], buf, pos + 1, outs)

\* trimAtEnd = TRUE is the repaired read(); FALSE is the pinned tree (kept so that the design-level
\* counterexample of C19 stays reproducible: MC_HdlcReader_pinned.cfg)
ReadCall(cfg, trimAtEnd, r, buf, pos, chunk) ==
   LET b1  == buf \o chunk
       b2  == IF r.hunt THEN TrimToFlag(b1, pos) ELSE b1
       p2  == IF r.hunt THEN 0 ELSE pos
       res == Loop(cfg, r, b2, p2, <<>>)
   IN IF trimAtEnd THEN <<res[1], SubSeq(res[2], res[3] + 1, Len(res[2])), 0, res[4]>> ELSE res

\* octets the reader holds on to after a call (what C19 bounds)
Retained(r, buf) == Len(buf) + Len(r.fr) + r.rawlen
=============================================================================
