---------------------------- MODULE HdlcContract ----------------------------
(***************************************************************************)
(* Contract of the HDLC reader: exactly the clauses of the listed          *)
(* properties C01, C02, C06, C14, C16 (HDLC part), as predicates over an   *)
(* observed history                                                        *)
(*      cfg    reader configuration [stuffing, abort]                      *)
(*      fed    all octets fed so far (concatenation of the read() chunks)  *)
(*      outs   all frames returned so far, in order; each with the values  *)
(*             of every public accessor                                    *)
(*      plan   (C02/C16) how the stream was built                          *)
(* Nothing here depends on how the reader works inside.                    *)
(***************************************************************************)
EXTENDS HdlcFrame, TLC

\* ------------------------------------------------------------------- C01
ClauseV(f) == f.valid = Intact(f.o)

ClauseF(f) == LET p == Parse(f.o) IN (f.valid /\ p.ok) =>
                 /\ f.dst = p.dst /\ f.src = p.src /\ f.ctrl = p.ctrl
                 /\ f.hcs = p.hcs /\ f.fcs = p.fcs
                 /\ f.haspayload = p.hasinfo
                 /\ (p.hasinfo => f.payload = p.info)

\* segmentation: the (untrusted) witness [ws, we] must show every frame as a segment of the
\* input between two flags, segments disjoint and in stream order
ClauseSAt(cfg, fed, outs, k) ==
   LET f == outs[k] s == f.ws e == f.we IN
   /\ s >= 2 /\ e >= s - 1 /\ e < Len(fed)
   /\ fed[s - 1] = FLAG /\ fed[e + 1] = FLAG
   /\ (k > 1 => s > outs[k - 1].we)
   /\ f.o = (IF cfg.stuffing THEN Unstuff(SubSeq(fed, s, e)) ELSE SubSeq(fed, s, e))

\* ------------------------------------------------------------------- C06
SameOutputs(a, b) == /\ Len(a) = Len(b)
                     /\ \A i \in 1..Len(a) : /\ a[i].o = b[i].o /\ a[i].valid = b[i].valid
                                             /\ a[i].haspayload = b[i].haspayload
                                             /\ a[i].payload = b[i].payload

\* ------------------------------------------------------------------- plans (C02, C16)
\* plan item: [k |-> "noise", o |-> octets] | [k |-> "flags", n |-> count]
\*          | [k |-> "frame", type, seg, dst, src, ctrl, info]
ItemFrame(it) == MkFrame(it.type, it.seg, it.dst, it.src, it.ctrl, it.info)
ItemWire(cfg, it) == IF it.k = "noise" THEN it.o
                     ELSE IF it.k = "flags" THEN [i \in 1..it.n |-> FLAG]
                     ELSE IF cfg.stuffing THEN Stuff(ItemFrame(it)) ELSE ItemFrame(it)
PlanWire(cfg, plan) == FoldLeft(LAMBDA a, it : a \o ItemWire(cfg, it), <<>>, plan)
PlanFrames(plan) == LET idx == SelectSeq([i \in 1..Len(plan) |-> i], LAMBDA i : plan[i].k = "frame")
                    IN [j \in 1..Len(idx) |-> ItemFrame(plan[idx[j]])]

HeaderLen(it) == 2 + Len(it.dst) + Len(it.src) + 1 + 2
WellFormedItem(it) ==
   /\ it.type \in 0..15 /\ it.ctrl \in 0..255
   /\ Len(it.dst) \in 1..4 /\ Len(it.src) \in 1..4
   /\ \A i \in 1..Len(it.dst) : it.dst[i] \in 0..255 /\ (it.dst[i] % 2 = 1) = (i = Len(it.dst))
   /\ \A i \in 1..Len(it.src) : it.src[i] \in 0..255 /\ (it.src[i] % 2 = 1) = (i = Len(it.src))
   /\ FrameLen(it.dst, it.src, it.info) <= 2047

\* domain of C02 for one frame in one configuration
InDomainC02(cfg, it) ==
   LET fr == ItemFrame(it) hl == HeaderLen(it) IN
   /\ WellFormedItem(it)
   /\ (~cfg.stuffing => ~Has(SubSeq(fr, 1, hl), FLAG))
   /\ ((~cfg.stuffing /\ cfg.abort) =>
          /\ fr[Len(fr)] # ESC
          /\ \A i \in 1..(Len(fr) - 1) : ~(fr[i] = ESC /\ fr[i + 1] = FLAG))

\* C02 stream shape: [noise without flags]? (flags>=1 frame)* flags>=1
CleanShape(plan) ==
   LET n == Len(plan) first == IF n > 0 /\ plan[1].k = "noise" THEN 2 ELSE 1 IN
   /\ n >= first
   /\ (first = 2 => ~Has(plan[1].o, FLAG))
   /\ plan[n].k = "flags"
   /\ \A i \in first..n : /\ plan[i].k \in {"flags", "frame"}
                          /\ (plan[i].k = "flags" => plan[i].n >= 1)
                          /\ (plan[i].k = "frame" => i > first - 1 /\ i < n /\ plan[i - 1].k = "flags" /\ plan[i + 1].k = "flags")
   /\ plan[first].k = "flags"

ValidOcts(outs) == LET v == SelectSeq(outs, LAMBDA f : f.valid) IN [i \in 1..Len(v) |-> v[i].o]

\* every accessor of a delivered frame agrees with the frame's octets (C02: "exact payload and header fields")
FieldsExact(f) == LET p == Parse(f.o) IN
   /\ p.ok /\ f.dst = p.dst /\ f.src = p.src /\ f.ctrl = p.ctrl /\ f.hcs = p.hcs /\ f.fcs = p.fcs
   /\ f.flen = p.flen /\ f.ftype = p.ftype /\ f.seg = p.seg
   /\ f.haspayload = p.hasinfo /\ (p.hasinfo => f.payload = p.info)

\* ------------------------------------------------------------------- C16
\* plan = noise item(s) first, then the clean suffix (flags/frames).  Required frames:
\*   stuffing:     every suffix frame but the first
\*   no stuffing:  every suffix frame without a flag octet that starts more than
\*                 2047 + its own length after the end of the noise
IsSubseq(a, b) == \* a is a subsequence of b (greedy)
   LET r == FoldLeft(LAMBDA i, x : IF i <= Len(a) /\ a[i] = x THEN i + 1 ELSE i, 1, b) IN r > Len(a)
=============================================================================
