SPECIFICATION Spec
CONSTANTS
 Stuffing = FALSE
 Abort = FALSE
 MaxSegs = 4
 TrimAtEnd = TRUE
 FlagGuard = TRUE
 MaxLen = 12
 BufBound = 27
 Lib = "max"
INVARIANT Refines
INVARIANT ValidIffIntact
INVARIANT CleanDelivered
INVARIANT Resync
INVARIANT BufBounded
CHECK_DEADLOCK FALSE
