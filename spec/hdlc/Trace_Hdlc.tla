----------------------------- MODULE Trace_Hdlc -----------------------------
(***************************************************************************)
(* Judge recorded executions of the real HdlcFrameReader.                  *)
(*                                                                         *)
(* trace = [id, canary, cfg : [stuffing, abort], mode, plan, runs]         *)
(*   runs  : the SAME stream fed under different chunkings                 *)
(*   run   = [calls : Seq([chunk, raised, hunt, esc, frames])]             *)
(*   frame = [o, valid, haspayload, payload, dst, src, ctrl, hcs, fcs,     *)
(*            flen, ftype, seg, ws, we, raised, stable]                    *)
(*           stable: as_bytes / is_valid / payload of the SAME object,     *)
(*           asked again after the whole stream was fed, are unchanged     *)
(*   mode  = "free"   no plan: C01, C06, C14 clauses only                  *)
(*           "clean"  plan is a C02 stream: + C02 clauses                  *)
(*           "resync" plan is noise + clean suffix: + C16 clause           *)
(*                                                                         *)
(* verdict = [id, ok, fails : Seq([c, run, at]), drift : Seq([c, run, at])]*)
(*   fails  contract clauses rejected (decides VIOLATION)                  *)
(*   drift  the execution is not a behaviour of the implementation-shaped  *)
(*          spec HdlcReader (decides DRIFT only)                           *)
(***************************************************************************)
EXTENDS HdlcContract, HdlcReader, Json, IOUtils

Fed(run)  == FoldLeft(LAMBDA a, c : a \o c.chunk, <<>>, run.calls)
Outs(run) == FoldLeft(LAMBDA a, c : a \o c.frames, <<>>, run.calls)
Cfg(t) == [stuffing |-> t.cfg.stuffing, abort |-> t.cfg.abort, maxlen |-> 2047, flagguard |-> TRUE]

F(c, r, k) == <<[c |-> c, run |-> r, at |-> k]>>
First(S) == CHOOSE k \in S : \A j \in S : k <= j

\* ---- C14: nothing raised
RaisedFails(t, r) ==
  LET calls == t.runs[r].calls
      bc == {i \in 1..Len(calls) : calls[i].raised # ""}
      outs == Outs(t.runs[r])
      bf == {k \in 1..Len(outs) : outs[k].raised # ""}
  IN (IF bc # {} THEN F("C14.read", r, First(bc)) ELSE <<>>)
     \o (IF bf # {} THEN F("C14.accessor", r, First(bf)) ELSE <<>>)

\* ---- C01
C01Fails(t, r) ==
  LET fed == Fed(t.runs[r]) outs == Outs(t.runs[r]) cfg == Cfg(t)
      bv == {k \in 1..Len(outs) : ~ClauseV(outs[k])}
      bf == {k \in 1..Len(outs) : ~ClauseF(outs[k])}
      bs == {k \in 1..Len(outs) : ~ClauseSAt(cfg, fed, outs, k)}
      bl == {k \in 1..Len(outs) : ~outs[k].stable}      \* the frame object answered differently when asked again after the run
  IN (IF bl # {} THEN F("C01.stable", r, First(bl)) ELSE <<>>)
     \o (IF bv # {} THEN F("C01.V", r, First(bv)) ELSE <<>>)
     \o (IF bf # {} THEN F("C01.F", r, First(bf)) ELSE <<>>)
     \o (IF bs # {} THEN F("C01.S", r, First(bs)) ELSE <<>>)

\* ---- C06
C06Fails(t) ==
  LET o1 == Outs(t.runs[1])
      bad == {r \in 2..Len(t.runs) : ~SameOutputs(o1, Outs(t.runs[r]))}
  IN IF bad # {} THEN F("C06.same", First(bad), 0) ELSE <<>>

\* ---- C02
CleanPlanOk(t) ==
  LET cfg == Cfg(t) IN
  /\ CleanShape(t.plan)
  /\ \A i \in 1..Len(t.plan) : t.plan[i].k = "frame" => InDomainC02(cfg, t.plan[i])
  /\ \A r \in 1..Len(t.runs) : Fed(t.runs[r]) = PlanWire(cfg, t.plan)
C02Fails(t, r) ==
  LET outs == Outs(t.runs[r])
      vs == SelectSeq(outs, LAMBDA f : f.valid)
      bf == {k \in 1..Len(vs) : ~FieldsExact(vs[k])}
      bl == {k \in 1..Len(outs) : outs[k].valid /\ ~outs[k].stable}
  IN (IF ValidOcts(outs) # PlanFrames(t.plan) THEN F("C02.deliver", r, 0) ELSE <<>>)
     \o (IF bl # {} THEN F("C02.stable", r, First(bl)) ELSE <<>>)
     \o (IF bf # {} THEN F("C02.fields", r, First(bf)) ELSE <<>>)

\* ---- C16
NoiseEnd(plan) == \* index of the last noise item (noise items come first)
  LET idx == {i \in 1..Len(plan) : plan[i].k = "noise"} IN IF idx = {} THEN 0 ELSE CHOOSE i \in idx : \A j \in idx : j <= i
Offsets(cfg, plan) == \* Offsets[i] = number of octets before item i
  LET r == FoldLeft(LAMBDA acc, it : <<acc[1] + Len(ItemWire(cfg, it)), Append(acc[2], acc[1])>>, <<0, <<>>>>, plan)
  IN Append(r[2], r[1])
ResyncPlanOk(t) ==
  LET cfg == Cfg(t) plan == t.plan ne == NoiseEnd(plan) n == Len(plan)
      fr == PlanFrames(plan) IN
  /\ \A i \in 1..ne : plan[i].k = "noise"
  /\ n > ne /\ plan[ne + 1].k = "flags" /\ plan[n].k = "flags"
  /\ \A i \in (ne + 1)..n :
        /\ plan[i].k \in {"flags", "frame"}
        /\ (plan[i].k = "flags" => plan[i].n \in {1, 2})
        /\ (plan[i].k = "frame" => /\ WellFormedItem(plan[i]) /\ plan[i - 1].k = "flags" /\ plan[i + 1].k = "flags")
  /\ \A i, j \in 1..Len(fr) : i # j => fr[i] # fr[j]
  /\ (~cfg.stuffing => \A i \in 1..Len(fr) : ~Has(fr[i], FLAG))     \* DESIGN 8-9: without stuffing the clean suffix is flag-free
  /\ ((~cfg.stuffing /\ cfg.abort) => \A i \in 1..Len(fr) : fr[i][Len(fr[i])] # ESC)   \* DESIGN 8-18: ... and no frame ends in 7D (7D 7E is the abort sequence)
  /\ \A r \in 1..Len(t.runs) : Fed(t.runs[r]) = PlanWire(cfg, plan)
Required(t) ==
  LET cfg == Cfg(t) plan == t.plan ne == NoiseEnd(plan) off == Offsets(cfg, plan)
      noiseEnd == off[ne + 1]
      fidx == SelectSeq([i \in 1..Len(plan) |-> i], LAMBDA i : plan[i].k = "frame")
      need == SelectSeq([j \in 1..Len(fidx) |-> j], LAMBDA j :
                 LET fr == ItemFrame(plan[fidx[j]]) IN
                 IF cfg.stuffing THEN j > 1
                 ELSE ~Has(fr, FLAG) /\ off[fidx[j]] - noiseEnd > 2047 + Len(fr))
  IN [q \in 1..Len(need) |-> ItemFrame(plan[fidx[need[q]]])]
C16Fails(t, r) ==
  IF IsSubseq(Required(t), ValidOcts(Outs(t.runs[r]))) THEN <<>> ELSE F("C16.deliver", r, 0)

\* ---- drift: the implementation-shaped spec must reproduce every call
DriftOf(t, r) ==
  LET cfg == Cfg(t)
      res == FoldLeft(LAMBDA acc, c :
                IF acc[3] # 0 THEN <<acc[1], acc[2] + 1, acc[3], acc[4]>>
                ELSE LET x == RefFrom(cfg, acc[1], c.chunk)
                         same == /\ Len(x[2]) = Len(c.frames)
                                 /\ \A k \in 1..Len(x[2]) : x[2][k].octets = c.frames[k].o /\ x[2][k].valid = c.frames[k].valid
                         st == x[1].hunt = c.hunt /\ x[1].esc = c.esc
                     IN <<x[1], acc[2] + 1, IF ~same THEN acc[2] + 1 ELSE IF ~st THEN acc[2] + 1 ELSE 0,
                          IF ~same THEN "frames" ELSE IF ~st THEN "state" ELSE "">>,
              <<R0, 0, 0, "">>, t.runs[r].calls)
  IN IF res[3] # 0 THEN F("impl." \o res[4], r, res[3]) ELSE <<>>

Verdict(t) ==
  LET rs == 1..Len(t.runs)
      perRun(Op(_, _)) == FoldLeft(LAMBDA a, r : a \o Op(t, r), <<>>, [r \in rs |-> r])
      base == perRun(RaisedFails) \o perRun(C01Fails) \o C06Fails(t)
      extra == IF t.mode = "clean" THEN (IF CleanPlanOk(t) THEN perRun(C02Fails) ELSE F("plan", 0, 0))
               ELSE IF t.mode = "resync" THEN (IF ResyncPlanOk(t) THEN perRun(C16Fails) ELSE F("plan", 0, 0))
               ELSE <<>>
      fails == base \o extra
      drift == IF t.nodrift THEN <<>> ELSE perRun(DriftOf)
  IN [id |-> t.id, ok |-> fails = <<>>, fails |-> fails, drift |-> drift]

Traces == ndJsonDeserialize(IOEnv.TRACE_FILE)
ASSUME JsonSerialize(IOEnv.OUT_FILE, [i \in 1..Len(Traces) |-> Verdict(Traces[i])])
=============================================================================
