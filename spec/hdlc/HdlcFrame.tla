----------------------------- MODULE HdlcFrame -----------------------------
(***************************************************************************)
(* HDLC frame format type 3 (IEC 62056-46 / ISO 13239) as used by DLMS      *)
(* push meters -- declarative structure of ONE frame (octets between two   *)
(* flags, after un-stuffing), plus a reference encoder.                    *)
(*                                                                         *)
(*   format(2)  dst(1..n)  src(1..n)  control(1)  HCS(2)  [info  FCS(2)]   *)
(*   format = type(4 bits) | segmentation(1) | length(11)                  *)
(*   an address ends at the first octet with the low bit set               *)
(*   header-only frames carry a single check sequence (the "HCS" is the    *)
(*   FCS).  Check sequences are FCS-16, transmitted low octet first.       *)
(***************************************************************************)
EXTENDS Fcs16, Integers, Sequences, SequencesExt, Bitwise

FLAG == 126     \* 0x7E
ESC  == 125     \* 0x7D
None == -1      \* "absent" (JSON has no null that TLC can read)

LenField(o)   == IF Len(o) >= 2 THEN (o[1] * 256 + o[2]) % 2048 ELSE None
FormatType(o) == o[1] \div 16
SegBit(o)     == (o[1] \div 8) % 2 = 1

RECURSIVE AddrEnd(_, _)
AddrEnd(o, p) == IF p > Len(o) THEN 0 ELSE IF o[p] % 2 = 1 THEN p ELSE AddrEnd(o, p + 1)

\* 1-based index of the last source-address octet (= 0-based position of the control octet), 0 if unknown
CtrlPos(o) == LET d == AddrEnd(o, 3) IN IF d = 0 THEN 0 ELSE AddrEnd(o, d + 1)

Parse(o) == LET d == AddrEnd(o, 3)
                s == IF d = 0 THEN 0 ELSE AddrEnd(o, d + 1) IN
            IF d = 0 \/ s = 0 \/ Len(o) < s + 3 THEN [ok |-> FALSE]
            ELSE [ok |-> TRUE, dst |-> SubSeq(o, 3, d), src |-> SubSeq(o, d + 1, s), ctrl |-> o[s + 1],
                  hcs |-> o[s + 2] * 256 + o[s + 3],
                  hasinfo |-> Len(o) > s + 3,
                  info |-> SubSeq(o, s + 4, Len(o) - 2),
                  fcs |-> o[Len(o) - 1] * 256 + o[Len(o)],
                  flen |-> LenField(o), ftype |-> FormatType(o), seg |-> SegBit(o)]

\* the statement of C01: length field equals the octet count and the FCS-16 over all octets but
\* the last two equals those two octets, low octet first
Intact(o) == /\ Len(o) >= 2
             /\ LenField(o) = Len(o)
             /\ FcsVal(SubSeq(o, 1, Len(o) - 2)) = o[Len(o) - 1] + 256 * o[Len(o)]

\* ---------------------------------------------------------------- reference encoder
FrameLen(dst, src, info) == 2 + Len(dst) + Len(src) + 1 + 2 + (IF Len(info) > 0 THEN Len(info) + 2 ELSE 0)

MkFrame(type, seg, dst, src, ctrl, info) ==
  LET n   == FrameLen(dst, src, info)
      fmt == type * 4096 + (IF seg THEN 2048 ELSE 0) + n
      hdr == <<fmt \div 256, fmt % 256>> \o dst \o src \o <<ctrl>>
      h2  == hdr \o FcsBytes(hdr)
  IN IF Len(info) > 0 THEN h2 \o info \o FcsBytes(h2 \o info) ELSE h2

StuffO(o) == IF o = FLAG THEN <<ESC, 94>> ELSE IF o = ESC THEN <<ESC, 93>> ELSE <<o>>
Stuff(seq) == FoldLeft(LAMBDA a, o : a \o StuffO(o), <<>>, seq)

\* un-stuffing of the octets between two flags; no escape is pending at the opening flag
Unstuff(w) == LET r == FoldLeft(LAMBDA acc, b :
                           IF acc[2] THEN <<Append(acc[1], b ^^ 32), FALSE>>
                           ELSE IF b = ESC THEN <<acc[1], TRUE>>
                           ELSE <<Append(acc[1], b), FALSE>>,
                         <<<<>>, FALSE>>, w)
              IN r[1]
EndsEscaped(w) == LET r == FoldLeft(LAMBDA acc, b : IF acc THEN FALSE ELSE b = ESC, FALSE, w) IN r

Count(seq, x) == FoldLeft(LAMBDA a, o : IF o = x THEN a + 1 ELSE a, 0, seq)
Has(seq, x) == \E i \in 1..Len(seq) : seq[i] = x
=============================================================================
