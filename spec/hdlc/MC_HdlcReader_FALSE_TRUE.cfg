SPECIFICATION Spec
CONSTANTS
 Stuffing = FALSE
 Abort = TRUE
 MaxSegs = 3
 TrimAtEnd = TRUE
 FlagGuard = TRUE
 MaxLen = 2047
 BufBound = 100
 Lib = "std"
INVARIANT Refines
INVARIANT ValidIffIntact
INVARIANT Segmented
INVARIANT CleanDelivered
INVARIANT Resync
INVARIANT BufBounded
CHECK_DEADLOCK FALSE
