------------------------------- MODULE Gen_Hdlc -------------------------------
(***************************************************************************)
(* spec -> code.  Behaviours of the implementation-shaped reader spec on   *)
(* wires built with the reference encoder (real FCS-16, real stuffing):    *)
(* every ordered pair of library segments (clean frames incl. flag/escape  *)
(* payloads and multi-octet addresses, damaged variants, noise) and frames *)
(* of 2046/2047 octets, for the four configurations, under several         *)
(* chunkings.  Each behaviour carries the frames (octets, validity) and    *)
(* the hunt/escape state the spec expects after every read() call; the     *)
(* driver replays the chunks into the real HdlcFrameReader and compares.   *)
(***************************************************************************)
EXTENDS HdlcReader, HdlcContract, Json, IOUtils

Cfgs == << [stuffing |-> FALSE, abort |-> FALSE], [stuffing |-> FALSE, abort |-> TRUE],
           [stuffing |-> TRUE, abort |-> FALSE], [stuffing |-> TRUE, abort |-> TRUE] >>
Full(c) == [stuffing |-> c.stuffing, abort |-> c.abort, maxlen |-> 2047, flagguard |-> TRUE]
W(c, f) == IF c.stuffing THEN Stuff(f) ELSE f

F1 == MkFrame(10, FALSE, <<1>>, <<3>>, 19, <<>>)
F2 == MkFrame(10, FALSE, <<1>>, <<3>>, 19, <<7, 8, 9>>)
F3 == MkFrame(10, TRUE,  <<2, 5>>, <<3>>, 19, <<126, 125, 1>>)
F4 == MkFrame(10, FALSE, <<1>>, <<2, 4, 6, 7>>, 16, <<93, 94, 125>>)
F5 == MkFrame(3, FALSE, <<254, 255>>, <<17>>, 255, <<0>>)
Flip(f, i) == [f EXCEPT ![i] = IF f[i] % 2 = 0 THEN f[i] + 1 ELSE f[i] - 1]
BadLen == LET n == Len(F2) + 1 hdr == <<160, n, 1, 3, 19>> h2 == hdr \o FcsBytes(hdr)
          IN h2 \o <<7, 8, 9>> \o FcsBytes(h2 \o <<7, 8, 9>>)
BigInfo(n) == [i \in 1..n |-> (i * 7 + (i \div 256)) % 256]
Big(n) == MkFrame(10, FALSE, <<1>>, <<3>>, 19, BigInfo(n))       \* Len = 9 + n

CleanSegs(c) == << <<FLAG>> \o W(c, F1), <<FLAG>> \o W(c, F2), <<FLAG>> \o W(c, F3), <<FLAG>> \o W(c, F4), <<FLAG>> \o W(c, F5) >>
JunkSegs(c)  == << <<FLAG>>, <<ESC>>, <<1, 2>>, <<94>>, <<FLAG>> \o W(c, Flip(F2, 9)), <<FLAG>> \o W(c, Flip(F2, Len(F2))),
                   <<FLAG>> \o W(c, BadLen), <<FLAG>> \o SubSeq(W(c, F2), 1, 7), <<FLAG>> \o SubSeq(W(c, F2), 1, 4),
                   <<FLAG>> \o W(c, F2) \o <<ESC>>, <<FLAG>> \o W(c, F2) \o <<85>> >>
AllSegs(c) == CleanSegs(c) \o JunkSegs(c)

\* chunkings of a wire of n octets, as sequences of call lengths
Ones(n) == [i \in 1..n |-> 1]
By(n, k) == [i \in 1..((n + k - 1) \div k) |-> IF i * k <= n THEN k ELSE n - (i - 1) * k]
Chunkings(n) == << <<n>>, Ones(n), By(n, 3), <<n \div 2, n - (n \div 2)>> >>

Split(w, cuts) == LET r == FoldLeft(LAMBDA acc, c : <<acc[1] + c, Append(acc[2], SubSeq(w, acc[1] + 1, acc[1] + c))>>, <<0, <<>>>>, cuts)
                  IN r[2]

Behave(id, kind, c, w, cuts) ==
  LET cfg == Full(c)
      r == FoldLeft(LAMBDA acc, ch : LET x == RefFrom(cfg, acc[1], ch) IN
                      <<x[1], Append(acc[2], [chunk |-> ch, frames |-> x[2], hunt |-> x[1].hunt, esc |-> x[1].esc])>>,
                    <<R0, <<>>>>, Split(w, cuts))
  IN [id |-> id, kind |-> kind, cfg |-> c, calls |-> r[2]]

PairBehaviours ==
  LET idx == {<<ci, i, j, k>> : ci \in 1..4, i \in 1..16, j \in 1..16, k \in 1..4}
      mk(q) == LET c == Cfgs[q[1]] segs == AllSegs(c)
                   w == segs[q[2]] \o segs[q[3]] \o <<FLAG>>
                   kind == IF q[2] <= 5 /\ q[3] <= 5 THEN "clean" ELSE "mixed"
               IN Behave(q[1] * 100000 + q[2] * 1000 + q[3] * 10 + q[4], kind, c, w, Chunkings(Len(w))[q[4]])
  IN {mk(q) : q \in idx}

BigBehaviours ==
  LET idx == {<<ci, n, k>> : ci \in 1..4, n \in {2037, 2038, 2039}, k \in {1, 4}}
      mk(q) == LET c == Cfgs[q[1]]
                   w == <<FLAG>> \o W(c, Big(q[2])) \o <<FLAG, FLAG>> \o W(c, F2) \o <<FLAG>>
               IN Behave(9000000 + q[1] * 100000 + q[2] * 10 + q[3], IF q[2] <= 2038 THEN "clean" ELSE "mixed", c, w, Chunkings(Len(w))[q[3]])
  IN {mk(q) : q \in idx}

ASSUME JsonSerialize(IOEnv.OUT_FILE, SetToSeq(PairBehaviours \cup BigBehaviours))
=============================================================================
