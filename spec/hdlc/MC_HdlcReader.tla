--------------------------- MODULE MC_HdlcReader ---------------------------
(***************************************************************************)
(* Bounded model: Impl (HdlcReader with its buffer layer) => Contract.     *)
(*                                                                         *)
(* The environment first builds a wire from a library of segments (real    *)
(* frames made by the reference encoder with real FCS-16, damaged          *)
(* variants, flags, escapes, noise octets), at most MaxSegs segments, then *)
(* feeds it to the reader under ALL chunkings with call lengths            *)
(* {1,2,3,5,rest}.  Checked in every reachable state:                      *)
(*   Refines        C06: reader state and all outputs so far equal the     *)
(*                  buffer-free per-octet fold of everything fed           *)
(*   ValidIffIntact C01.V for every frame emitted                          *)
(*   Segmented      C01.S: emitted frames are the un-stuffed contents of   *)
(*                  disjoint, ordered, flag-delimited pieces of the wire   *)
(*   CleanDelivered C02: if the wire is a clean stream, every frame whose  *)
(*                  closing flag has been fed has been delivered once, in  *)
(*                  order, valid                                           *)
(*   Resync         C16: frames following the first clean frame after any  *)
(*                  junk are delivered                                     *)
(*   BufBounded     C19: retained octets <= K + last chunk                 *)
(***************************************************************************)
EXTENDS HdlcReader, HdlcContract, FiniteSets
CONSTANTS Stuffing, Abort, MaxSegs, TrimAtEnd, FlagGuard, MaxLen, BufBound, Lib

Cfg == [stuffing |-> Stuffing, abort |-> Abort, maxlen |-> MaxLen, flagguard |-> FlagGuard]
Wire(f) == IF Stuffing THEN Stuff(f) ELSE f

F1 == MkFrame(10, FALSE, <<1>>, <<3>>, 19, <<>>)                  \* header only
F2 == MkFrame(10, FALSE, <<1>>, <<3>>, 19, <<7, 8, 9>>)
F3 == MkFrame(10, TRUE,  <<2, 5>>, <<3>>, 19, <<126, 125, 1>>)     \* flag and escape in the information field
F4 == MkFrame(10, FALSE, <<1>>, <<2, 4, 7>>, 16, <<93, 94>>)
Flip(f, i) == [f EXCEPT ![i] = IF f[i] % 2 = 0 THEN f[i] + 1 ELSE f[i] - 1]
BadLen == \* wrong length field with recomputed HCS and FCS
  LET n == Len(F2) + 1 hdr == <<160, n, 1, 3, 19>> h2 == hdr \o FcsBytes(hdr)
  IN h2 \o <<7, 8, 9>> \o FcsBytes(h2 \o <<7, 8, 9>>)

G2 == MkFrame(10, FALSE, <<1>>, <<3>>, 19, <<7, 8>>)               \* 11 octets
G4 == MkFrame(10, FALSE, <<1>>, <<3>>, 19, <<7, 8, 9, 10>>)        \* 13 octets: over a MaxLen of 12

CleanStd == { <<FLAG>> \o Wire(F1), <<FLAG>> \o Wire(F2), <<FLAG>> \o Wire(F3), <<FLAG>> \o Wire(F4) }
JunkStd  == { <<FLAG>>, <<ESC>>, <<1>>, <<2>>, <<94>>,
           <<FLAG>> \o Wire(Flip(F2, 9)),              \* bit flipped in the information field
           <<FLAG>> \o Wire(Flip(F2, Len(F2))),        \* bit flipped in the FCS
           <<FLAG>> \o Wire(BadLen),
           <<FLAG>> \o SubSeq(Wire(F2), 1, 7),         \* truncated right after the HCS
           <<FLAG>> \o SubSeq(Wire(F2), 1, 4),         \* truncated inside the header
           <<FLAG>> \o Wire(F2) \o <<ESC>> }           \* ends in an escape (abort sequence)
\* "max" library, for MaxLen scaled to 12: frames of MaxLen-1, MaxLen (clean), MaxLen+1 (over-long),
\* a start that never ends, flag fill
CleanMax == { <<FLAG>> \o Wire(F1), <<FLAG>> \o Wire(G2), <<FLAG>> \o Wire(F2) }
JunkMax  == { <<FLAG>>, <<FLAG>> \o Wire(G4), <<FLAG, 160, 12, 1, 3>>, <<1, 1, 1, 1, 1, 1, 1>>, <<ESC, FLAG>> }
\* "rs" library, for MaxLen scaled to 8 and up to 5 segments: the non-stuffing form of C16 only binds frames that start more than
\* MaxLen + one frame length after the noise, so the clean suffix must be long compared with MaxLen (vacuous in "max" with 3 segments)
CleanRs == { <<FLAG>> \o Wire(F1) }
JunkRs  == { <<FLAG>> \o Wire(G2), <<FLAG, 160, 12, 1, 3>>, <<1, 1, 1, 1, 1, 1, 1>>, <<ESC, FLAG>> }
Clean == IF Lib = "max" THEN CleanMax ELSE IF Lib = "rs" THEN CleanRs ELSE CleanStd
Junk  == IF Lib = "max" THEN JunkMax ELSE IF Lib = "rs" THEN JunkRs ELSE JunkStd
Segs == Clean \cup Junk
FrameOf(sg) == IF sg = <<FLAG>> \o Wire(F1) THEN F1 ELSE IF sg = <<FLAG>> \o Wire(F2) THEN F2
               ELSE IF sg = <<FLAG>> \o Wire(F3) THEN F3 ELSE IF sg = <<FLAG>> \o Wire(G2) THEN G2 ELSE F4

VARIABLES wire, segs, fedn, rd, buf, pos, outs, phase, lastChunk
vars == <<wire, segs, fedn, rd, buf, pos, outs, phase, lastChunk>>

Init == /\ wire = <<>> /\ segs = <<>> /\ fedn = 0 /\ rd = R0 /\ buf = <<>> /\ pos = 0
        /\ outs = <<>> /\ phase = "build" /\ lastChunk = 0
AddSeg == /\ phase = "build" /\ Len(segs) < MaxSegs
          /\ \E sg \in Segs : wire' = wire \o sg /\ segs' = Append(segs, sg)
          /\ UNCHANGED <<fedn, rd, buf, pos, outs, phase, lastChunk>>
Close == /\ phase = "build" /\ Len(segs) > 0 /\ phase' = "read" /\ wire' = wire \o <<FLAG>>
         /\ UNCHANGED <<segs, fedn, rd, buf, pos, outs, lastChunk>>
Read == /\ phase = "read" /\ fedn < Len(wire)
        /\ \E n \in {1, 2, 3, 5, Len(wire) - fedn} :
             /\ n <= Len(wire) - fedn
             /\ LET res == ReadCall(Cfg, TrimAtEnd, rd, buf, pos, SubSeq(wire, fedn + 1, fedn + n)) IN
                  rd' = res[1] /\ buf' = res[2] /\ pos' = res[3] /\ outs' = outs \o res[4]
             /\ fedn' = fedn + n /\ lastChunk' = n
        /\ UNCHANGED <<wire, segs, phase>>
Next == AddSeg \/ Close \/ Read
Spec == Init /\ [][Next]_vars

\* ---------------------------------------------------------------- properties
Fed == SubSeq(wire, 1, fedn)
Refines == phase = "read" => LET ref == RefRun(Cfg, Fed) IN ref[1] = rd /\ ref[2] = outs
ValidIffIntact == \A i \in 1..Len(outs) : outs[i].valid = Intact(outs[i].octets)

\* C01.S at model level: search the witness (the model is small)
FlagPos == {i \in 1..fedn : wire[i] = FLAG}
SegOk(o, s, e) == s - 1 \in FlagPos /\ e + 1 \in FlagPos /\ e >= s - 1 /\
                  o = (IF Stuffing THEN Unstuff(SubSeq(wire, s, e)) ELSE SubSeq(wire, s, e))
RECURSIVE Assign(_, _)
Assign(k, from) == \* frames k.. can be assigned to segments starting after `from`
   IF k > Len(outs) THEN TRUE
   ELSE \E s \in (from + 1)..fedn : \E e \in (s - 1)..(fedn - 1) :
          SegOk(outs[k].octets, s, e) /\ Assign(k + 1, e)
Segmented == phase = "read" => Assign(1, 0)

\* C02: the wire is clean iff all segments are clean frames (no stuffing: frames with a flag in the
\* header or an escape before a flag are outside the domain -- none in this library except F3's info)
IsClean == \A i \in 1..Len(segs) : segs[i] \in Clean
CleanDomain(f) == InDomainC02(Cfg, [type |-> FormatType(f), seg |-> SegBit(f), dst |-> Parse(f).dst, src |-> Parse(f).src,
                                    ctrl |-> Parse(f).ctrl, info |-> Parse(f).info])
SegEnd(i) == \* number of wire octets up to and including the closing flag of segment i
   FoldLeft(LAMBDA a, j : a + Len(segs[j]), 0, [j \in 1..i |-> j]) + 1
Completed == {i \in 1..Len(segs) : SegEnd(i) <= fedn}
CleanDelivered ==
   (phase = "read" /\ IsClean /\ \A i \in 1..Len(segs) : CleanDomain(FrameOf(segs[i]))) =>
      LET done == SelectSeq([i \in 1..Len(segs) |-> i], LAMBDA i : i \in Completed)
          v == SelectSeq(outs, LAMBDA f : f.valid)
      IN [j \in 1..Len(v) |-> v[j].octets] = [j \in 1..Len(done) |-> FrameOf(segs[done[j]])]

\* C16 (stuffing): the wire is  <anything> . <clean suffix>; every frame of the clean suffix except
\* possibly its first is delivered.  (Without stuffing the statement only binds 2047 + one frame
\* length after the junk; that is exercised by the scaled-MaxLen configuration.)
LastJunk == LET J == {i \in 1..Len(segs) : segs[i] \in Junk} IN IF J = {} THEN 0 ELSE CHOOSE i \in J : \A j \in J : j <= i
SegStart(i) == FoldLeft(LAMBDA a, j : a + Len(segs[j]), 0, [j \in 1..(i - 1) |-> j])   \* octets before segment i
ResyncReq ==
      LET noiseEnd == SegStart(LastJunk + 1)
      IN SelectSeq([i \in 1..Len(segs) |-> i],
                   LAMBDA i : /\ i > LastJunk
                              /\ IF Stuffing THEN i > LastJunk + 1
                                 ELSE ~Has(FrameOf(segs[i]), FLAG)
                                      /\ (SegStart(i) + 1) - noiseEnd > MaxLen + Len(FrameOf(segs[i])))
Resync ==
   (phase = "read" /\ fedn = Len(wire)) =>
      LET req == ResyncReq
          v == SelectSeq(outs, LAMBDA f : f.valid)
      IN IsSubseq([j \in 1..Len(req) |-> FrameOf(segs[req[j]])], [j \in 1..Len(v) |-> v[j].octets])

BufBounded == Retained(rd, buf) <= BufBound + lastChunk
\* Witnesses (vacuity guards, harness/core.py Check.witnesses): written as invariants that TLC must find VIOLATED
W_ValidOut == ~(\E i \in 1..Len(outs) : outs[i].valid)
W_InvalidOut == ~(\E i \in 1..Len(outs) : ~outs[i].valid)
W_TwoCleanDelivered == ~(phase = "read" /\ IsClean /\ (\A i \in 1..Len(segs) : CleanDomain(FrameOf(segs[i]))) /\ Cardinality(Completed) >= 2)
W_ResyncBinds == ~(phase = "read" /\ fedn = Len(wire) /\ LastJunk > 0 /\ Len(ResyncReq) >= 1)
W_CallEndsInsideFrame == ~(phase = "read" /\ 0 < fedn /\ fedn < Len(wire) /\ rd # R0 /\ Len(outs) > 0)
W_RetainedNearMax == ~(Retained(rd, buf) >= MaxLen)
NeverStuck == phase = "read" => (fedn = Len(wire) \/ ENABLED Read)
=============================================================================
