----------------------------- MODULE HdlcPartial -----------------------------
(***************************************************************************)
(* Growth beyond the listed properties: what the accessors of HdlcFrame /  *)
(* HdlcFrameHeader answer while a frame is still being assembled           *)
(* (HdlcFrame.append octet by octet) -- the behaviour the suite's          *)
(* test_read_* family samples for four captured frames.                    *)
(* For a prefix o of a frame, Partial(o) gives every accessor; None (-1)   *)
(* / has* = FALSE means "not read yet".                                    *)
(***************************************************************************)
EXTENDS HdlcFrame
Partial(o) ==
  LET n == Len(o)
      fmt == IF n >= 2 THEN o[1] * 256 + o[2] ELSE None
      d == IF n >= 3 THEN AddrEnd(o, 3) ELSE 0                 \* index of last destination octet, 0 = not complete
      s == IF d # 0 THEN AddrEnd(o, d + 1) ELSE 0              \* index of last source octet = control position (0-based)
      cpk == s # 0 /\ n > 3                                     \* control position known
  IN [ format |-> fmt,
       ftype |-> IF n >= 2 THEN fmt \div 4096 ELSE None,
       seg |-> n >= 2 /\ (fmt \div 2048) % 2 = 1,
       flen |-> IF n >= 2 THEN fmt % 2048 ELSE None,
       hasdst |-> d # 0, dst |-> IF d # 0 THEN SubSeq(o, 3, d) ELSE <<>>,
       hassrc |-> s # 0, src |-> IF s # 0 THEN SubSeq(o, d + 1, s) ELSE <<>>,
       ctrl |-> IF cpk /\ n > s THEN o[s + 1] ELSE None,
       hcs |-> IF cpk /\ n > s + 2 THEN o[s + 2] * 256 + o[s + 3] ELSE None,
       infopos |-> IF cpk THEN s + 3 ELSE None,
       good |-> FcsReg(o) = GoodFcs,
       explen |-> n >= 2 /\ fmt % 2048 = n,
       fcs |-> IF cpk /\ n >= s + 3 THEN o[n - 1] * 256 + o[n] ELSE None,
       haspayload |-> cpk /\ n > s + 3,
       payload |-> IF cpk /\ n > s + 3 THEN SubSeq(o, s + 4, n - 2) ELSE <<>> ]
=============================================================================
