-------------------------- MODULE Trace_HdlcPartial --------------------------
(* Judge the accessor values recorded after every HdlcFrame.append().                     *)
(* trace = [id, canary, octets, obs : Seq(record with the fields of Partial)]             *)
EXTENDS HdlcPartial, TLC, Json, IOUtils
Verdict(t) ==
  LET bad == {i \in 1..Len(t.obs) : t.obs[i] # Partial(SubSeq(t.octets, 1, i))} IN
  IF Len(t.obs) # Len(t.octets) THEN [id |-> t.id, ok |-> FALSE, at |-> 0, field |-> "shape"]
  ELSE IF bad = {} THEN [id |-> t.id, ok |-> TRUE, at |-> 0, field |-> ""]
  ELSE LET i == CHOOSE i \in bad : \A j \in bad : i <= j
           e == Partial(SubSeq(t.octets, 1, i))
           f == CHOOSE f \in DOMAIN e : t.obs[i][f] # e[f]
       IN [id |-> t.id, ok |-> FALSE, at |-> i, field |-> f]
Traces == ndJsonDeserialize(IOEnv.TRACE_FILE)
ASSUME JsonSerialize(IOEnv.OUT_FILE, [i \in 1..Len(Traces) |-> Verdict(Traces[i])])
=============================================================================
