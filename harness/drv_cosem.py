"""C07 / C08 / C09 / C10 — COSEM push lists decode to the transmitted values (model-based generation + TLC judging)."""
from __future__ import annotations

import copy
import multiprocessing as mp
import random

from .core import Check, stable_id
from .drv_p1dec import entries
from .tlc import MachineryError

PROP = {"aidon": "C07", "kaifa": "C08", "kamstrup": "C09"}
PLACES = {"aidon": None, "kaifa": 15, "kamstrup": 15}    # significant digits, DESIGN §8-2
DT_NONE = {"y": 2000, "mo": 1, "d": 1, "dow": 255, "h": 0, "mi": 0, "s": 0, "hs": 255, "dev": 32768, "st": 0}


def el(obis=(), t="u32", hi=0, lo=0, s=b"", dt=None, exp=0, unit=27, nulls=0) -> dict:
    return {"obis": list(obis), "t": t, "hi": hi, "lo": lo, "s": list(s), "dt": dict(dt or DT_NONE), "exp": exp, "unit": unit, "nulls": nulls}


# ----------------------------------------------------------------------------- untrusted Python encoder (TLC re-encodes and compares)
def dt12(d) -> bytes:
    return bytes([d["y"] >> 8, d["y"] & 255, d["mo"], d["d"], d["dow"], d["h"], d["mi"], d["s"], d["hs"], d["dev"] >> 8, d["dev"] & 255, d["st"]])


def value_oct(e) -> bytes:
    t = e["t"]
    if t == "u32":
        return bytes([6, e["hi"] >> 8, e["hi"] & 255, e["lo"] >> 8, e["lo"] & 255])
    if t == "i16":
        return bytes([16, e["lo"] >> 8, e["lo"] & 255])
    if t == "u16":
        return bytes([18, e["lo"] >> 8, e["lo"] & 255])
    if t == "vstr":
        return bytes([10, len(e["s"])]) + bytes(e["s"])
    if t == "ostr":
        return bytes([9, len(e["s"])]) + bytes(e["s"])
    return bytes([9, 12]) + dt12(e["dt"])


def body(m) -> bytes:
    es = m["elems"]
    if m["meter"] == "aidon":
        out = bytes([1, len(es)])
        for e in es:
            num = e["t"] in ("u32", "i16", "u16")
            out += bytes([2, 3 if num else 2, 9, 6]) + bytes(e["obis"]) + value_oct(e)
            if num:
                out += bytes([2, 2, 15, e["exp"] & 255, 22, e["unit"]])
        return out
    if m["meter"] == "kaifa":
        if m["layout"] == "pos":
            return bytes([2, len(es)]) + b"".join(value_oct(e) for e in es)
        return bytes([2, 2 * len(es)]) + b"".join(bytes([9, 6]) + bytes(e["obis"]) + value_oct(e) for e in es)
    out = bytes([2, m["count"]])
    for e in es:
        out += (bytes([9, 6]) + bytes(e["obis"]) if e["obis"] else b"") + value_oct(e) + b"\x00" * e["nulls"]
    return out


def encode(m) -> bytes:
    if m["form"] == "body":
        return body(m)
    a = m["apdu"]
    adt = b"\x00" if a["kind"] == "null" else (bytes([9, 12]) + dt12(a["dt"]) if a["kind"] == "tagged" else bytes([12]) + dt12(a["dt"]))
    return bytes([0xE6, 0xE7, 0x00, 0x0F]) + bytes(m["invoke"]) + adt + body(m)


# ----------------------------------------------------------------------------- independent mini reader for the captured messages
class _R:
    def __init__(self, b):
        self.b, self.p = b, 0

    def u8(self):
        v = self.b[self.p]
        self.p += 1
        return v

    def take(self, n):
        v = self.b[self.p:self.p + n]
        if len(v) != n:
            raise ValueError("short")
        self.p += n
        return v

    def dt(self):
        x = self.take(12)
        return {"y": x[0] << 8 | x[1], "mo": x[2], "d": x[3], "dow": x[4], "h": x[5], "mi": x[6], "s": x[7], "hs": x[8], "dev": x[9] << 8 | x[10], "st": x[11]}


def _value(r: _R, e: dict, octet_is_text_ok=True):
    tag = r.u8()
    if tag == 6:
        x = r.take(4)
        e.update(t="u32", hi=x[0] << 8 | x[1], lo=x[2] << 8 | x[3])
    elif tag in (16, 18):
        x = r.take(2)
        e.update(t="i16" if tag == 16 else "u16", lo=x[0] << 8 | x[1])
    elif tag == 10:
        e.update(t="vstr", s=list(r.take(r.u8())))
    elif tag == 9:
        n = r.u8()
        if n == 12 and not all(32 <= c < 127 for c in r.b[r.p:r.p + 12]):
            e.update(t="dt", dt=r.dt())
        else:
            e.update(t="ostr", s=list(r.take(n)))
    else:
        raise ValueError(f"tag {tag}")


def _expect(cond: bool) -> None:
    """Not an assert statement: the reading inside the condition must happen under python -O as well."""
    if not cond:
        raise ValueError("captured message does not have the expected shape")


def abstract_of(meter: str, b: bytes) -> dict:
    """Abstract form of a captured message, read with a reader that shares nothing with the repository's grammar."""
    r = _R(b)
    m = {"meter": meter, "form": "body", "layout": "list", "invoke": [64, 0, 0, 0], "apdu": {"kind": "null", "dt": dict(DT_NONE)}, "count": 0, "elems": []}
    if b[:3] == b"\xe6\xe7\x00":
        m["form"] = "frame"
        r.take(4)
        m["invoke"] = list(r.take(4))
        k = r.b[r.p]
        if k == 0:
            r.u8()
        elif k == 9:
            r.take(2)
            m["apdu"] = {"kind": "tagged", "dt": r.dt()}
        else:
            r.take(1)
            m["apdu"] = {"kind": "untagged", "dt": r.dt()}
    if meter == "aidon":
        _expect(r.u8() == 1)
        n = r.u8()
        for _ in range(n):
            _expect(r.u8() == 2)
            r.u8()
            _expect(r.take(2) == b"\x09\x06")
            e = el(obis=r.take(6))
            _value(r, e)
            if e["t"] in ("u32", "i16", "u16"):
                x = r.take(6)
                e["exp"] = x[3] - 256 if x[3] >= 128 else x[3]
                e["unit"] = x[5]
            m["elems"].append(e)
    elif meter == "kaifa":
        _expect(r.u8() == 2)
        n = r.u8()
        if r.b[r.p:r.p + 2] == b"\x09\x06" and n % 2 == 0 and r.b[r.p + 8] in (6, 9) and n > 18:
            m["layout"] = "obis"
            for _ in range(n // 2):
                r.take(2)
                e = el(obis=r.take(6))
                _value(r, e)
                m["elems"].append(e)
        else:
            m["layout"] = "pos"
            for _ in range(n):
                e = el()
                _value(r, e)
                m["elems"].append(e)
    else:
        _expect(r.u8() == 2)
        m["count"] = r.u8()
        while r.p < len(b):
            e = el()
            if r.b[r.p] == 9 and r.b[r.p + 1] == 6:
                r.take(2)
                e["obis"] = list(r.take(6))
            _value(r, e)
            while r.p < len(b) and r.b[r.p] == 0:
                r.u8()
                e["nulls"] += 1
            m["elems"].append(e)
    if r.p != len(b):
        raise ValueError("trailing octets")
    return m


# ----------------------------------------------------------------------------- recording
def decode(meter: str, form: str, b: bytes) -> dict:
    import importlib
    mod = importlib.import_module(f"han.{meter}")
    fn = mod.decode_frame_content if form == "frame" else mod.decode_notification_body
    from .drv_p1dec import call
    return call(fn, b, places=PLACES[meter])


def record(m: dict, b: bytes, origin: str, with_other=True) -> dict:
    got = decode(m["meter"], m["form"], b)
    t = {"id": stable_id("cosem", b.hex(), m["meter"], m["form"]), "canary": "", "origin": origin, "msg": m, "bytes": list(b), "got": got,
         "hasother": False, "obytes": [], "other": {"raised": "", "entries": []}}
    if with_other:
        o = copy.deepcopy(m)
        o["form"] = "body" if m["form"] == "frame" else "frame"
        ok = not (o["form"] == "frame" and o["apdu"]["kind"] == "null" and (m["meter"] == "kamstrup" or (m["meter"] == "kaifa" and m["layout"] == "pos")))
        if ok:
            ob = encode(o)
            t.update(hasother=True, obytes=list(ob), other=decode(o["meter"], o["form"], ob))
    return t


# ----------------------------------------------------------------------------- random messages
def rand_dt(rng: random.Random) -> dict:
    if rng.random() < 0.12:     # all twelve octets below 0x80 (looks like text to a careless dispatch)
        return {"y": rng.choice([2048, 2100, 2175, 2050]), "mo": rng.randint(1, 12), "d": rng.randint(1, 28), "dow": rng.randint(1, 7), "h": rng.randint(0, 23),
                "mi": rng.randint(0, 59), "s": rng.randint(0, 59), "hs": rng.randint(0, 99), "dev": rng.choice([0, 60, 120]), "st": rng.choice([0, 1, 127])}
    from .core import dst_wall_times
    gaps = dst_wall_times()
    if gaps and rng.random() < 0.25:        # a civil time the HOST's zone skips or repeats, deviation equal / opposite to the host's offset or arbitrary
        y, mo, d, h, mi, s, off = rng.choice(gaps)
        if abs(off) > 720:          # the deviation field only reaches +-720 minutes
            off = 0
        dev = rng.choice([(-off) % 65536, off % 65536, 0x8000, 0, 65536 - 60, rng.randint(0, 720)])
        return {"y": y, "mo": mo, "d": d, "dow": 0xFF, "h": h, "mi": mi, "s": s, "hs": rng.choice([0xFF, 0, rng.randint(0, 99)]), "dev": dev,
                "st": rng.choice([0, 0x80, 0xFF, rng.randint(0, 255)])}
    y = rng.choice([1, 1999, 2000, 2024, 9999, rng.randint(1, 9999)])
    mo = rng.randint(1, 12)
    dim = [31, 29 if (y % 4 == 0 and y % 100 != 0) or y % 400 == 0 else 28, 31, 30, 31, 30, 31, 31, 30, 31, 30, 31][mo - 1]
    import time as _time
    hoff = _time.localtime().tm_gmtoff // 60
    hoff = hoff if abs(hoff) <= 720 else 0
    dev = rng.choice([0x8000, 0, rng.randint(0, 720), 65536 - rng.randint(1, 720), 720, 65536 - 720, 719, 65536 - 719, 60, 65536 - 60,
                      hoff % 65536, (-hoff) % 65536])
    return {"y": y, "mo": mo, "d": rng.randint(1, dim), "dow": rng.choice([0xFF, rng.randint(0, 255)]), "h": rng.randint(0, 23), "mi": rng.randint(0, 59),
            "s": rng.randint(0, 59), "hs": rng.choice([0xFF, rng.randint(0, 99)]), "dev": dev, "st": rng.randint(0, 255)}


def rand_reg(rng: random.Random):
    v = rng.choice([0, 1, 0x7FFF, 0x8000, 0xFFFF, 0x7FFFFFFF, 0x80000000, 0xFFFFFFFF, rng.randrange(1 << 32), rng.randrange(1 << 32), rng.randrange(100000)])
    return v >> 16, v & 0xFFFF


def rand_str(rng: random.Random, lo=1, hi=24) -> bytes:
    return bytes(rng.randint(32, 126) for _ in range(rng.randint(lo, hi)))


def randomise(rng: random.Random, m: dict) -> dict:
    """Same layout, every register / string / clock redrawn from the full range."""
    m = copy.deepcopy(m)
    for i, e in enumerate(m["elems"]):
        if e["t"] == "u32":
            e["hi"], e["lo"] = rand_reg(rng)
        elif e["t"] in ("i16", "u16"):
            e["lo"] = rand_reg(rng)[1]
        elif e["t"] in ("vstr", "ostr"):
            if m["meter"] == "aidon" and rng.random() < 0.3:
                # Aidon visible strings are verbatim over ALL of ASCII (C07: "arbitrary ASCII identification strings"),
                # including leading/trailing NUL and control characters
                e["s"] = list(rng.choice([b"\x00", b"6525\x00\x00", b"\x00AB", b" x ", b"\t\r\n", bytes(rng.randrange(128) for _ in range(rng.randint(1, 12)))]))
            elif not (m["meter"] == "kamstrup" and e["obis"] == [1, 1, 96, 1, 1, 255]):
                e["s"] = list(rand_str(rng))
            elif rng.random() < 0.5:
                e["s"] = list(rng.choice([b"685", b"6851", b"684", b"68", b"5685", b"685" + rand_str(rng, 0, 10)]))
        else:
            e["dt"] = rand_dt(rng)
        if m["meter"] == "aidon" and e["t"] in ("u32", "i16", "u16"):
            e["exp"] = rng.randint(-3, 3)
        if m["meter"] == "kamstrup":
            e["nulls"] = rng.choice([0, 0, 0, 1, 2, 4, 8])
    if m["meter"] == "aidon" and m["form"] == "frame" and rng.random() < 0.5:
        m["apdu"] = {"kind": rng.choice(["tagged", "untagged"]), "dt": rand_dt(rng)}     # the header clock is not part of an Aidon dictionary
    if m["apdu"]["kind"] != "null":
        m["apdu"]["dt"] = rand_dt(rng)
    if m["meter"] == "aidon":   # any subset / order of the elements
        if rng.random() < 0.5:
            rng.shuffle(m["elems"])
        if rng.random() < 0.5 and len(m["elems"]) > 2:
            m["elems"] = rng.sample(m["elems"], rng.randint(1, len(m["elems"])))
    return m


def _job(args):
    from .core import set_logging
    set_logging(args)
    seed, base, n = args
    rng = random.Random(seed)
    out = []
    for _ in range(n):
        m = randomise(rng, rng.choice(base))
        out.append(record(m, encode(m), "gen:random"))
    return out


def gen_msgs(chk: Check, which: str):
    from . import tlc
    return tlc.export("cosem", "Gen_Cosem", rundir=chk.rundir, env={"GEN_SET": which}, timeout=900, xmx="6g")


def captured(meter: str):
    from .drv_auto import genuine_pool
    out = []
    for name, b, own in genuine_pool():
        if name.startswith(meter + ":"):
            try:
                out.append((name, abstract_of(meter, b), b))
            except Exception as ex:  # noqa: BLE001
                raise MachineryError(f"cannot read captured message {name}: {ex}")
    return out


def canaries(traces, rng):
    out = []
    src = [t for t in traces if not t["got"]["raised"] and any(e["k"] == "num" for e in t["got"]["entries"])]
    if src:
        c = copy.deepcopy(rng.choice(src))
        e = next(e for e in c["got"]["entries"] if e["k"] == "num")
        e["int"] = e["int"] + [0]
        c["canary"], c["id"] = "value_x10", "canary-value"
        out.append(c)
        c = copy.deepcopy(rng.choice(src))
        c["got"]["entries"] = [e for e in c["got"]["entries"] if e["name"] != "meter_manufacturer"]
        c["canary"], c["id"] = "no_manufacturer", "canary-manu"
        out.append(c)
    src = [t for t in traces if any(e["k"] == "dt" for e in t["got"]["entries"])]
    if src:
        c = copy.deepcopy(rng.choice(src))
        e = next(e for e in c["got"]["entries"] if e["k"] == "dt")
        e["dt"][8] = e["dt"][8] + 1 if e["dt"][7] else 0
        e["dt"][6] += 10000
        c["canary"], c["id"] = "datetime", "canary-dt"
        out.append(c)
    return out


def run_meter(chk: Check, meter: str) -> int:
    quick = chk.tier == "quick"
    pid = PROP[meter]
    chk.model("cosem", "MC_Cosem", f"MC_Cosem_{meter}.cfg", workers=16, coverage=False, timeout=900, xmx="8g")
    caps = captured(meter)
    traces = [record(m, b, "captured:" + name, with_other=False) for name, m, b in caps]
    gen = gen_msgs(chk, meter)
    if quick and len(gen) > 700:
        gen = chk.rng.sample(gen, 700)
    from .core import set_logging
    for k, g in enumerate(gen):
        set_logging(k)
        traces.append(record(g["msg"], bytes(g["bytes"]), "tlc:Gen_Cosem"))
    chk.cov["behaviours_replayed"] = len(gen)
    chk.cov["captured_messages_reencoded"] = len(caps)
    base = [m for _, m, _ in caps] + [g["msg"] for g in gen[::7]]
    with mp.Pool(16) as pool:
        res = pool.map(_job, [(chk.seed * 1000 + 70 + i, base, 40 if quick else 2000) for i in range(16)])
    traces += [t for r in res for t in r]
    return finish_cosem(chk, traces, (pid,), meter)


def finish_cosem(chk: Check, traces, prefixes, what: str) -> int:
    seen, uniq = set(), []
    for t in traces:
        if t["id"] not in seen:
            seen.add(t["id"])
            uniq.append(t)
    traces = uniq + canaries(uniq, chk.rng)
    verdicts = chk.judge("cosem", "Trace_Cosem", traces, what=f"{what}-messages", xmx="4g")
    for t, v in zip(traces, verdicts):
        if t["canary"]:
            continue
        chk.count(t["id"])
        for c in v["fails"]:
            if c == "plan":
                raise MachineryError(f"COSEM message outside the domain or encoder mismatch: {t['origin']} {bytes(t['bytes']).hex()[:120]}")
            if c.startswith(prefixes):
                chk.violation(f"cosem-{c}", f"TLC rejects decode of {t['msg']['meter']} {t['msg']['form']} ({t['origin']}) {bytes(t['bytes']).hex()[:100]}..: clause {c}; "
                              f"raised={t['got']['raised']!r} got={[(e['name'], e['k'], ''.join(map(str, e['int'])), ''.join(map(str, e['frac']))) for e in t['got']['entries']][:5]}",
                              {"kind": "cosem-trace", "trace": t, "verdict": v})
    t = next(t for t in traces if t["origin"] == "gen:random")
    chk.sample({"meter": t["msg"]["meter"], "form": t["msg"]["form"], "bytes": bytes(t["bytes"]).hex()[:160],
                "decoded": [(e["name"], e["k"], ("-" if e["neg"] else "") + "".join(map(str, e["int"])) + ("." + "".join(map(str, e["frac"])) if e["frac"] else "")
                             if e["k"] == "num" else (bytes(e["t"]).decode("latin1") if e["k"] == "text" else e["dt"])) for e in t["got"]["entries"]][:8]})
    chk.assumptions += ["the reference encoder and Meaning are the specification (spec/cosem/Cosem.tla); it is validated by re-encoding every captured "
                        "message of the repository's tests byte for byte", "register space: boundary classes enumerated by TLC, rest seeded random; Aidon "
                        "values compared exactly via repr(float), Kaifa/Kamstrup after rounding to 15 significant digits (DESIGN §8-2)"]
    return chk.finish(rule="spec->code: TLC enumerates the documented list layouts x register value classes (0, 1, sign boundaries of 16/32 bit, max) x scaler "
                           "-3..3 / meter types incl. CT / null padding patterns / APDU clock forms, encoded by the spec's A-XDR encoder; code->spec: the same "
                           "layouts and the captured messages with every register, string and clock redrawn from the full range (Aidon: any subset/order); "
                           "TLC re-encodes each abstract message, compares with the bytes fed, computes Meaning and judges the decoded dictionary, also for the "
                           "other form (frame/body); non-trivial = distinct message")


def run_c07(chk):
    return run_meter(chk, "aidon")


def run_c08(chk):
    return run_meter(chk, "kaifa")


def run_c09(chk):
    return run_meter(chk, "kamstrup")


def run_c10(chk: Check) -> int:
    quick = chk.tier == "quick"
    chk.model("cosem", "MC_Cosem", "MC_Cosem_dt.cfg", workers=16, coverage=False, timeout=900, xmx="8g")
    gen = gen_msgs(chk, "dt")
    if quick:
        gen = chk.rng.sample(gen, 1200)
    from .core import set_logging as _sl
    traces = []
    for _k, g in enumerate(gen):
        if _k % 50 == 0:
            _sl(_k // 50)
        traces.append(record(g["msg"], bytes(g["bytes"]), "tlc:Gen_Cosem:dt"))
    chk.cov["behaviours_replayed"] = len(gen)
    # random valid date-times in each of the six positions
    rng = chk.rng
    base = [g["msg"] for g in gen[:: 41]]
    from .core import set_logging
    for _i in range(600 if quick else 20000):
        if _i % 20 == 0:
            set_logging(_i // 20)        # logging configuration and process time zone rotate
        if _i % 7 == 3:
            # line noise between the valid messages: a date-time outside the domain (deviation beyond +-720, month 13, hour 24 ...).
            # Whatever the decoder makes of it is not judged here (C15 does that) - the valid messages after it are.
            g = copy.deepcopy(rng.choice(base))
            bad = rand_dt(rng)
            alias = rng.choice([-1, 1]) * rng.randint(1, 720)     # the next valid message uses this deviation; the noise one that is 1441 / 65536-ish away
            bad.update(rng.choice([{"dev": (alias - 1441) % 65536}, {"dev": (alias + 1441) % 65536}, {"dev": (alias - 1440) % 65536}, {"mo": 13}, {"h": 24}, {"d": 0},
                                   {"hs": 100}]))
            for e in g["elems"]:
                if e["t"] == "dt":
                    e["dt"] = dict(bad)
            if g["apdu"]["kind"] != "null":
                g["apdu"]["dt"] = dict(bad)
            try:
                decode(g["meter"], g["form"], encode(g))
            except Exception:  # noqa: BLE001
                pass
        m = copy.deepcopy(rng.choice(base))
        for e in m["elems"]:
            if e["t"] == "dt":
                e["dt"] = rand_dt(rng)
                if _i % 7 == 3:
                    e["dt"]["dev"] = alias % 65536
        if m["apdu"]["kind"] != "null":
            m["apdu"]["dt"] = rand_dt(rng)
            if _i % 7 == 3:
                m["apdu"]["dt"]["dev"] = alias % 65536
        traces.append(record(m, encode(m), "gen:random", with_other=False))
    # the same instant written with different deviations, decoded one after the other (UTC vs local time, the hour that exists twice
    # at the end of daylight saving): every one must come back with ITS OWN civil fields and offset
    import datetime as _dt
    for _ in range(150 if quick else 3000):
        m = copy.deepcopy(rng.choice(base))
        y, mo, d = rng.randint(2000, 2090), rng.randint(1, 12), rng.randint(2, 27)
        local = _dt.datetime(y, mo, d, rng.randint(0, 23), rng.randint(0, 59), rng.randint(0, 59))
        hs = rng.choice([0xFF, 0, rng.randint(0, 99)])
        dev1 = rng.choice([0, -60, -120, 60, 300, -720, 720, -345])
        for dev2 in rng.sample([0, -60, -120, 60, 300, -720, 720, -345, -90], 3) + [dev1]:
            loc = local + _dt.timedelta(minutes=dev1 - dev2)          # UTC = local + deviation
            x = {"y": loc.year, "mo": loc.month, "d": loc.day, "dow": 0xFF, "h": loc.hour, "mi": loc.minute, "s": loc.second, "hs": hs,
                 "dev": dev2 % 65536, "st": rng.choice([0, 0x80, 0xFF])}
            m2 = copy.deepcopy(m)
            for e in m2["elems"]:
                if e["t"] == "dt":
                    e["dt"] = dict(x)
            if m2["apdu"]["kind"] != "null":
                m2["apdu"]["dt"] = dict(x)
            traces.append(record(m2, encode(m2), "gen:same-instant", with_other=False))
    return finish_cosem(chk, traces, ("C10",), "datetime")


def replay_any(chk: Check, rp: dict, prefixes) -> int:
    t = rp["trace"]
    nt = record(t["msg"], bytes(t["bytes"]), "replay", with_other=t["hasother"])
    v = chk.judge("cosem", "Trace_Cosem", [nt], what="replay")[0]
    for c in v["fails"]:
        if c.startswith(prefixes):
            chk.violation(f"cosem-{c}", f"still rejected: {v['fails']}", {"kind": "cosem-trace", "trace": nt, "verdict": v})
    return chk.finish(rule="replay of one message")


def replay_c07(chk, rp):
    return replay_any(chk, rp, ("C07",))


def replay_c08(chk, rp):
    return replay_any(chk, rp, ("C08",))


def replay_c09(chk, rp):
    return replay_any(chk, rp, ("C09",))


def replay_c10(chk, rp):
    return replay_any(chk, rp, ("C10",))
