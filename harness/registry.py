"""Property id -> (driver entry, evidence level)."""
from __future__ import annotations

import json

from . import drv_auto, drv_conn, drv_cosem, drv_fcs, drv_hdlc, drv_obis, drv_p1, drv_p1dec, drv_proto, drv_readers

CHECKS = {
    "C01": (drv_hdlc.run_c01, "model_checking"),
    "C02": (drv_hdlc.run_c02, "model_checking"),
    "C03": (drv_fcs.run, "model_checking"),
    "C04": (drv_p1.run_c04, "model_checking"),
    "C05": (drv_p1.run_c05, "model_checking"),
    "C06": (drv_hdlc.run_c06, "model_checking"),
    "C07": (drv_cosem.run_c07, "model_checking"),
    "C08": (drv_cosem.run_c08, "model_checking"),
    "C09": (drv_cosem.run_c09, "model_checking"),
    "C10": (drv_cosem.run_c10, "model_checking"),
    "C11": (drv_p1dec.run_c11, "model_checking"),
    "C12": (drv_auto.run_c12, "model_checking"),
    "C13": (drv_proto.run_c13, "model_checking"),
    "C15": (drv_auto.run_c15, "model_checking"),
    "C14": (drv_readers.run_c14, "model_checking"),
    "C16": (drv_readers.run_c16, "model_checking"),
    "C17": (drv_conn.run_c17, "model_checking"),
    "C18": (drv_conn.run_c18, "model_checking"),
    "C19": (drv_readers.run_c19, "model_checking"),
    "C20": (drv_obis.run_c20, "model_checking"),
}

REPLAYERS = {
    "C01": drv_hdlc.replay_c01,
    "C02": drv_hdlc.replay_c02,
    "C03": drv_fcs.replay,
    "C04": drv_p1.replay_c04,
    "C05": drv_p1.replay_c05,
    "C06": drv_hdlc.replay_c06,
    "C07": drv_cosem.replay_c07,
    "C08": drv_cosem.replay_c08,
    "C09": drv_cosem.replay_c09,
    "C10": drv_cosem.replay_c10,
    "C11": drv_p1dec.replay_c11,
    "C12": drv_auto.replay_c12,
    "C13": drv_proto.replay_c13,
    "C15": drv_auto.replay_c15,
    "C14": drv_readers.replay_c14,
    "C16": drv_readers.replay_c16,
    "C17": drv_conn.replay_c17,
    "C18": drv_conn.replay_c18,
    "C19": drv_readers.replay_c19,
    "C20": drv_obis.replay_c20,
}


PREFIX = {pid: (pid,) for pid in CHECKS}
PREFIX["C14"] = ("C14", "C16")


def replay(chk, path: str) -> int:
    """Re-run the recorded inputs of a replay file against the current tree; dispatch on the kind of record."""
    with open(path) as f:
        rp = json.load(f)
    kind = rp.get("kind", "")
    pre = PREFIX[chk.pid]
    if kind == "hdlc-trace":
        return drv_hdlc.replay_trace(chk, rp, pre)
    if kind == "hdlc-behaviour":
        drv_hdlc.replay_behaviours(chk, pre, only=[rp["behaviour"]])
        return chk.finish(rule="replay of one TLC-generated behaviour")
    if kind in ("p1-trace", "p1-gen"):
        return drv_p1.replay_any(chk, rp, pre)
    if kind == "mem-trace":
        return drv_readers.replay_c19(chk, rp)
    if kind in ("conn-trace",):
        return drv_conn.replay_any(chk, rp, pre)
    if kind == "backoff-trace":
        return drv_conn.replay_c18(chk, rp)
    if kind in ("proto-trace", "proto-gen"):
        return drv_proto.replay_any(chk, rp, pre)
    if kind in ("auto-trace", "auto-gen"):
        return drv_auto.replay_any(chk, rp, pre)
    if kind == "parse-gen":
        return drv_auto.replay_c15(chk, rp)
    if kind == "obis-op":
        return drv_obis.replay_c20(chk, rp)
    if kind == "p1dec-trace":
        return drv_p1dec.replay_c11(chk, rp)
    if kind == "cosem-trace":
        return drv_cosem.replay_any(chk, rp, pre)
    if kind.startswith("fcs"):
        return drv_fcs.replay(chk, rp)
    return REPLAYERS[chk.pid](chk, rp)
