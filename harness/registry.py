"""Property id -> (driver entry, evidence level)."""
from __future__ import annotations

import json

from . import drv_fcs

CHECKS = {
    "C03": (drv_fcs.run, "model_checking"),
}

REPLAYERS = {
    "C03": drv_fcs.replay,
}


def replay(chk, path: str) -> int:
    with open(path) as f:
        rp = json.load(f)
    return REPLAYERS[chk.pid](chk, rp)
