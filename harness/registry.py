"""Property id -> (driver entry, evidence level)."""
from __future__ import annotations

import json

from . import drv_fcs, drv_hdlc

CHECKS = {
    "C01": (drv_hdlc.run_c01, "model_checking"),
    "C02": (drv_hdlc.run_c02, "model_checking"),
    "C03": (drv_fcs.run, "model_checking"),
    "C06": (drv_hdlc.run_c06, "model_checking"),
}

REPLAYERS = {
    "C01": drv_hdlc.replay_c01,
    "C02": drv_hdlc.replay_c02,
    "C03": drv_fcs.replay,
    "C06": drv_hdlc.replay_c06,
}


def replay(chk, path: str) -> int:
    with open(path) as f:
        rp = json.load(f)
    return REPLAYERS[chk.pid](chk, rp)
