"""P1 (IEC 62056-21 mode D) drivers: recording, generators, checks C04, C05 (+ P1 parts of C14, C16)."""
from __future__ import annotations

import copy
import multiprocessing as mp
import random

from .core import Check, chunkings, split, stable_id
from .tlc import MachineryError


# ----------------------------------------------------------------------------- generator-side encoder (untrusted)
def crc16(b: bytes) -> int:
    c = 0
    for x in b:
        c ^= x
        for _ in range(8):
            c = (c >> 1) ^ 0xA001 if c & 1 else c >> 1
    return c


def mkreadout(ident: bytes, lines: list[bytes], ck: str) -> bytes:
    body = ident + b"\r\n" + b"".join(l + b"\r\n" for l in lines) + b"!"
    c = crc16(body)
    if ck == "none":
        return body + b"\r\n"
    if ck == "ok":
        return body + b"%04X\r\n" % c
    if ck == "lower":
        return body + b"%04x\r\n" % c
    if ck == "zero":
        return body + b"0000\r\n"
    if ck == "off":
        return body + b"%04X\r\n" % ((c + 1) % 65536)
    return body + b"zz\r\n"


WORD = b"abcdefghijklmnopqrstuvwxyzABCDEFGHIJKLMNOPQRSTUVWXYZ0123456789_"
PRINT = bytes(range(32, 127))
DATA_CH = bytes(c for c in range(32, 127) if c not in (0x2F, 0x21))


def rand_ident(rng: random.Random) -> bytes:
    up = b"ABCDEFGHIJKLMNOPQRSTUVWXYZ"
    s = b"/" + bytes([rng.choice(up), rng.choice(up), rng.choice(up + up.lower()), rng.choice(b"0123456789")])
    for _ in range(rng.choice([0, 0, 0, 1, 2])):
        s += b"\\" + bytes([rng.choice(WORD)])
    n = rng.choice([1, 2, 4, 8, 15, 16])
    idc = bytes(rng.choice(DATA_CH) for _ in range(n)).strip() or b"X"   # printable except '/' and '!'
    # an identification beginning with backslash+word would be read as a further escape pair; still well-formed
    return s + idc


def rand_line(rng: random.Random) -> bytes:
    k = rng.random()
    if k < 0.1:
        return b""
    if k < 0.7:
        return b"%d-%d:%d.%d.%d(%0*.3f*%s)" % (rng.randint(0, 1), rng.randint(0, 3), rng.randint(0, 99), rng.randint(0, 99),
                                                 rng.randint(0, 9), rng.randint(5, 12), rng.random() * 1000,
                                                 rng.choice([b"kWh", b"kW", b"V", b"A", b"kvarh"]))
    return bytes(rng.choice(DATA_CH) for _ in range(rng.randint(1, 60)))


def item_readout(rng: random.Random, tag: int | None = None, nlines=None) -> dict:
    n = rng.choice([0, 1, 2, 5, 12, 40]) if nlines is None else nlines
    lines = [rand_line(rng) for _ in range(n)]
    if tag is not None:
        lines.append(b"0-0:96.1.0(%08d)" % tag)
    return {"k": "readout", "ident": list(rand_ident(rng)), "lines": [list(l) for l in lines],
            "ck": rng.choice(["ok", "ok", "none"]), "o": [], "cut": 0}


def item_noise(o: bytes) -> dict:
    return {"k": "noise", "o": list(o), "ident": [], "lines": [], "ck": "none", "cut": 0}


def item_bytes(it: dict) -> bytes:
    if it["k"] == "noise":
        return bytes(it["o"])
    r = mkreadout(bytes(it["ident"]), [bytes(l) for l in it["lines"]], it["ck"])
    return r[it["cut"]:] if it["k"] == "tail" else r


def plan_wire(plan) -> bytes:
    return b"".join(item_bytes(it) for it in plan)


# ----------------------------------------------------------------------------- recording
def readout_record(ro) -> dict:
    err: list[str] = []
    verr = ""
    try:
        o = ro.as_bytes
    except Exception as ex:  # noqa: BLE001
        o, _ = b"", err.append(type(ex).__name__)
    try:
        valid = bool(ro.is_valid)
    except Exception as ex:  # noqa: BLE001
        valid, verr = False, type(ex).__name__
    try:
        payload = ro.payload
    except Exception as ex:  # noqa: BLE001
        payload, _ = b"", err.append(type(ex).__name__)
    try:
        ro.message_type
    except Exception as ex:  # noqa: BLE001
        err.append(type(ex).__name__)
    # the verdict must not depend on which other accessors were used before: touch them, then ask again
    valid2 = valid
    acc = {"seen": False, "exp": -3, "end": [], "endraised": False}
    if hasattr(type(ro), "identification_line"):
        for name in ("identification_line", "expected_checksum", "end_line", "data_lines"):
            try:
                v = getattr(ro, name)
                if name == "expected_checksum":
                    acc["exp"] = -1 if v is None else (int(v) if 0 <= int(v) < 2 ** 31 else -3)
                elif name == "end_line":
                    acc["end"] = list(str(v).encode("latin1", "replace"))
            except Exception:  # noqa: BLE001 (these accessors are not covered by C14)
                if name == "expected_checksum":
                    acc["exp"] = -2
                elif name == "end_line":
                    acc["endraised"] = True
        acc["seen"] = len(o) < 3000         # growth clause only for readouts of moderate size
        try:
            valid2 = bool(ro.is_valid)
        except Exception as ex:  # noqa: BLE001
            valid2, verr = False, verr or type(ex).__name__
    return {"o": list(o), "valid": valid, "valid2": valid2, "vraised": verr, "payload": list(payload or b""), "raised": err[0] if err else "",
            "stable": True, "acc": acc}


def record_run(chunks: list[bytes], reader=None, reuse=False) -> dict | None:
    """reuse: see drv_hdlc.record_run (one refilled bytearray / a memoryview of it as chunk; dropped on TypeError)."""
    from han.dlde import ModeDReader
    r = reader or ModeDReader()
    by = ModeDReader()       # a second reader used between the calls: readers are independent objects
    calls = []
    kept = []
    lists = []
    rbuf, rbuf2 = bytearray(max([len(c) for c in chunks] + [1])), bytearray()
    for n, ch in enumerate(chunks):
        raised, outs = "", []
        try:
            by.read((b"/XYZ5other\r\n", b"1-0:1.8.0(1*kWh)\r\n", b"!\r\n", b"/", b"abc", b"!12", b"\n")[n % 7])
        except Exception:  # noqa: BLE001
            pass
        try:
            if reuse == "view":
                rbuf[:len(ch)] = ch
                res = r.read(memoryview(rbuf)[:len(ch)])        # a view of the caller's ONE receive buffer, overwritten by the next call
            elif reuse:
                res = r.read(_refill(rbuf2, ch))                # one bytearray object, refilled for every call
            else:
                res = r.read(ch)
            outs = [readout_record(x) for x in res]
            kept += list(zip(res, outs))
            lists.append((res, outs))
        except TypeError as ex:
            if reuse:
                return None
            raised = type(ex).__name__
        except Exception as ex:  # noqa: BLE001
            raised = type(ex).__name__
        try:
            hunt = bool(r.is_in_hunt_mode)
        except Exception:  # noqa: BLE001
            hunt = False
        calls.append({"chunk": list(ch), "raised": raised, "hunt": hunt, "readouts": outs})
    from .drv_hdlc import recheck_stable
    recheck_stable(kept, lists)
    return {"calls": calls}


def _refill(buf: bytearray, ch: bytes) -> bytearray:
    buf[:] = ch
    return buf


def make_trace(data: bytes, cutsets, *, mode="free", plan=None, origin="", nodrift=False) -> dict:
    runs = [record_run(split(data, cuts)) for cuts in cutsets]
    if len(cutsets) > 1 and len(data) < 20000:      # one more run: the last chunking again through a caller-owned, refilled receive buffer
        run = record_run(split(data, cutsets[-1]), reuse="view" if len(data) % 2 else "refill")
        if run is not None:
            runs.append(run)
    return {"id": stable_id("p1", data.hex(), cutsets, mode), "canary": "", "origin": origin, "mode": mode,
            "plan": plan or [], "runs": runs, "nodrift": nodrift}


def direct_trace(octets: bytes, origin: str) -> dict | None:
    """A readout built directly from bytes (C04 quantifies over these too)."""
    from han.dlde import DataReadout
    try:
        ro = DataReadout(octets)
    except Exception:  # noqa: BLE001
        return None  # the constructor's documented refusal (no '/' or no '!'): not a readout
    from .core import set_logging
    set_logging(0, debug=False)
    rec = readout_record(ro)
    recs = [rec]
    # the same octets again with every logger at DEBUG: the answers must not depend on the logging configuration
    set_logging(0, debug=True)
    try:
        rec3 = readout_record(DataReadout(octets))
        if (rec3["valid"], rec3["valid2"], rec3["raised"], rec3["vraised"]) != (rec["valid"], rec["valid2"], rec["raised"], rec["vraised"]):
            recs.append(rec3)
    except Exception:  # noqa: BLE001
        pass
    set_logging(0, debug=False)
    if rec["valid2"] != rec["valid"]:          # a second report of the same readout that differs: judge both
        r2 = dict(rec)
        r2["valid"] = rec["valid2"]
        recs.append(r2)
    return {"id": stable_id("p1d", octets.hex()), "canary": "", "origin": origin, "mode": "direct", "plan": [],
            "runs": [{"calls": [{"chunk": [], "raised": "", "hunt": True, "readouts": recs}]}], "nodrift": True}


def nreadouts(t) -> int:
    return sum(len(c["readouts"]) for c in t["runs"][0]["calls"])


def trace_octets(t) -> int:
    return sum(len(c["chunk"]) for r in t["runs"] for c in r["calls"]) + sum(
        len(x["o"]) for r in t["runs"] for c in r["calls"] for x in c["readouts"])


# ----------------------------------------------------------------------------- generators
def clean_plan(rng: random.Random, n: int, tail: bool, nlines=None) -> list[dict]:
    plan = []
    if tail:
        it = item_readout(rng)
        it["k"] = "tail"
        it["cut"] = rng.randint(1, len(item_bytes(it)) - 1)
        plan.append(it)
    for j in range(n):
        plan.append(item_readout(rng, tag=j, nlines=nlines))
    return plan


P1_NOISE = ["random", "ascii", "slash_nolf", "ident_noend", "partial_readout", "bang_lines", "highbytes", "ident_bang",
            "end_nonhex", "near_guard", "over_guard", "slash_long_line", "guard_boundary", "ident_then_high"]


def noise_prefix(rng: random.Random, kind: str) -> bytes:
    ro = item_bytes(item_readout(rng, nlines=3))
    if kind == "random":
        return bytes(rng.randrange(256) for _ in range(rng.randint(1, 300)))
    if kind == "ascii":
        return bytes(rng.choice(b"/!\r\n()*.:-0123456789ABCxyz \\") for _ in range(rng.randint(1, 200)))
    if kind == "slash_nolf":
        return b"/" + bytes(rng.choice(b"ABC5xyz ") for _ in range(rng.randint(0, 40)))
    if kind == "ident_noend":
        return b"/ABC5id\r\n" + b"".join(rand_line(rng) + b"\r\n" for _ in range(rng.randint(0, 5)))
    if kind == "partial_readout":
        return ro[:rng.randint(1, len(ro) - 1)]
    if kind == "bang_lines":
        return b"!\r\n!zz\r\n!\xff\r\n" + b"/ABC5x!y\r\n!12\r\n"
    if kind == "highbytes":
        return b"/\xff\n/ABC5\xe6\r\n" + bytes(rng.randrange(128, 256) for _ in range(rng.randint(1, 30))) + b"\n"
    if kind == "ident_bang":
        return b"/ABC5x!y\r\n1-0:1.8.0(1*kWh)\r\n"
    if kind == "end_nonhex":
        return b"/ABC5id\r\n1-0:1.8.0(1*kWh)\r\n!zz\r\n" + b"/ABC5id\r\n!\xff\xfe\r\n" + b"/ABC5id\r\n!0x1F\r\n!+1_0\r\n"
    if kind == "near_guard":
        return b"/ABC5id\r\n" + b"0-0:96.1.0(12345678)\r\n" * rng.choice([380, 385, 389])
    if kind == "over_guard":
        return b"/ABC5id\r\n" + b"0-0:96.1.0(12345678)\r\n" * rng.choice([400, 800])
    if kind == "guard_boundary":
        # identification + data lines just below the guard; the end line (or the next few octets) carries it across
        body = b"/ABC5id\r\n" + b"0-0:96.1.0(12345678)\r\n" * 371
        pad = rng.choice([0, 1, 2, 3, 4] * 3 + list(range(30)))
        return body + b"1-0:1.8.0(" + b"0" * pad + b"1*kWh)\r\n" + rng.choice([b"!\r\n", b"!ABCD\r\n", b"!" + b"0" * 12 + b"\r\n", b""])
    if kind == "ident_then_high":     # a readout starts properly, then a data line with octets >= 0x80; no end line of its own
        return rand_ident(rng) + b"\r\n1-0:1.8.0(" + bytes(rng.choice([0x80, 0xE6, 0xFF, 0xC3, 0xA5]) for _ in range(rng.randint(1, 6))) + b"*kWh)\r\n" + \
            rng.choice([b"", b"0-0:96.1.0(1)\r\n"])
    if kind == "slash_long_line":
        return b"/" + b"x" * rng.choice([8180, 8191, 8192, 9000, 20000])
    return b"x"


def resync_plan(rng: random.Random, kind: str, n: int) -> list[dict]:
    plan = [item_noise(noise_prefix(rng, kind))]
    for j in range(n):
        plan.append(item_readout(rng, tag=j, nlines=rng.choice([0, 1, 3, 8, 8, 160])))
    return plan


def chunkings_p1(rng: random.Random, data: bytes, plan, k: int) -> list[list[int]]:
    n = len(data)
    outs = chunkings(rng, n, k)
    # the counterexample family of the pinned model: fixed sizes around the readout length, > 8 KiB, coprime sizes
    lens = [len(item_bytes(it)) for it in plan if it["k"] == "readout"]
    if lens and max(lens) > 3000:
        for sz in (36, 134, 512, 1000):
            outs.append([sz] * (n // sz) + ([n % sz] if n % sz else []))
    if lens:
        L = rng.choice(lens)
        for sz in {max(1, L - 1), L + 1, rng.choice([8192, 8193, 9000, 16384]), rng.choice([7, 11, 13, 101, 1021])}:
            if sz < n:
                outs.append([sz] * (n // sz) + ([n % sz] if n % sz else []))
    return outs


def _mk_clean(args):
    from .core import set_logging
    set_logging(args)
    seed, n, big = args
    rng = random.Random(seed)
    out = []
    for k in range(n):
        if k % 4 == 2:          # readouts of several KiB each ("each readout well below 8 KiB")
            plan = clean_plan(rng, rng.randint(3, 12), rng.random() < 0.3, nlines=rng.choice([120, 180, 250]))
        elif big and k % 4 == 0:
            plan = clean_plan(rng, rng.randint(30, 120), rng.random() < 0.5, nlines=rng.choice([2, 5, 20]))
        elif k % 4 == 3:        # a single data line of 1-2.5 KiB (a text message as hex digits), readout still well below 8 KiB
            plan = clean_plan(rng, rng.randint(2, 5), rng.random() < 0.3, nlines=rng.choice([1, 3]))
            for it in plan:
                if it["k"] == "readout" and rng.random() < 0.7:
                    it["lines"].insert(rng.randint(0, len(it["lines"])), list(b"0-0:96.13.0(" + bytes(rng.choice(b"0123456789ABCDEF") for _ in range(rng.choice([1040, 1100, 1500, 2048, 2400]))) + b")"))
        else:
            plan = clean_plan(rng, rng.randint(1, 10), rng.random() < 0.4)
        data = plan_wire(plan)
        cuts = chunkings_p1(rng, data, plan, 2 if len(data) > 20000 else 4)
        if k % 4 == 3:
            sz = rng.choice([32, 256, 1500])
            cuts.append([sz] * (len(data) // sz) + ([len(data) % sz] if len(data) % sz else []))
        if len(data) > 3000:
            cuts = [c for c in cuts if len(c) <= 4000]
        out.append(make_trace(data, cuts, mode="clean", plan=plan, origin="gen:clean", nodrift=len(data) > 30000))
    return out


def _mk_resync(args):
    from .core import set_logging
    set_logging(args)
    seed, n = args
    rng = random.Random(seed)
    out = []
    for k in range(n):
        kind = P1_NOISE[(k + seed * 5) % len(P1_NOISE)]          # jobs start at different kinds so that a small tier still covers all
        plan = resync_plan(rng, kind, rng.randint(2, 6))
        data = plan_wire(plan)
        cuts = chunkings_p1(rng, data, plan, 3)
        nl = len(item_bytes(plan[0]))
        for sz in (rng.choice([1, 2, 5]) if len(data) - nl < 1500 else 23, rng.choice([37, 64, 97])):
            rest = len(data) - nl
            cuts.append([nl] + [sz] * (rest // sz) + ([rest % sz] if rest % sz else []))      # noise whole, suffix in small chunks
        cuts = [c for c in cuts if len(c) <= 3000]
        out.append(make_trace(data, cuts, mode="resync", plan=plan, origin="gen:resync:" + kind))
    return out


def pmap(fn, jobs):
    with mp.Pool(min(16, max(1, len(jobs)))) as pool:
        res = pool.map(fn, jobs)
    return [t for r in res for t in r]


def captured_readouts() -> list[bytes]:
    import tests.test_dlde as td  # the repository's captured readouts
    outs = []
    for name in dir(td):
        v = getattr(td, name)
        if name.startswith("EXAMPLE_DATA") and isinstance(v, bytes):
            outs.append(v)
    return outs


def direct_variants(rng: random.Random, quick: bool) -> list[dict]:
    """Captured and generated readouts: every single-bit flip (sampled in quick), checksum field replaced."""
    outs = []
    base = captured_readouts()
    base += [item_bytes(item_readout(rng, nlines=n)) for n in (0, 1, 2, 3)]
    base += [mkreadout(b"/ABC5id", [b"1-0:1.8.0(001.5*kWh)"], ck) for ck in ("ok", "none", "lower", "zero", "off", "nonhex")]
    for b in base:
        t = direct_trace(b, "direct:base")
        if t:
            outs.append(t)
        e = b.find(b"!")
        nbits = len(b) * 8
        bits = range(nbits) if (not quick or nbits <= 800) else sorted(rng.sample(range(nbits), 300))
        for bit in bits:
            g = bytearray(b)
            g[bit // 8] ^= 1 << (bit % 8)
            t = direct_trace(bytes(g), "direct:bitflip")
            if t:
                outs.append(t)
        if e >= 0:
            c = crc16(b[:e + 1])
            for field in [b"0000", b"FFFF", b"%04X" % c, b"%04x" % c, b"%04X" % (c ^ 1), b"%04X" % ((c + 256) % 65536),
                          b"%04X" % rng.randrange(65536), b"", b"zz", b"12", b"0x1F", b"+0A1B"]:
                for end in (b"\r\n", b"", b"\n"):
                    t = direct_trace(b[:e + 1] + field + end, "direct:checksum-field")
                    if t:
                        outs.append(t)
    return outs


# ----------------------------------------------------------------------------- canaries
def canaries_for(traces, rng: random.Random) -> list[dict]:
    out = []
    withr = [t for t in traces if nreadouts(t) > 0 and not t["canary"]]
    rng.shuffle(withr)

    def first(t):
        for c in t["runs"][0]["calls"]:
            if c["readouts"]:
                return c["readouts"][0]

    # sources are chosen where the CONTRACT fixes the answer (planned clean readouts must be valid), not where the implementation said so
    pools = {"flip_valid": [t for t in withr if t["mode"] == "clean" and first(t)["valid"]] or
                           [t for t in withr if t["mode"] == "direct" and first(t)["valid"]],
             "payload_octet": [t for t in withr if first(t)["valid"] and first(t)["payload"]],
             "drop_readout": [t for t in withr if t["mode"] == "clean"],
             "octet": [t for t in withr if t["mode"] == "clean"]}
    for kind, pool in pools.items():
        if not pool:
            continue
        c = copy.deepcopy(pool[0])
        f = first(c)
        if kind == "flip_valid":
            f["valid"] = not f["valid"]
        elif kind == "payload_octet":
            f["payload"][0] ^= 1
        elif kind == "drop_readout":
            for cl in c["runs"][0]["calls"]:
                if cl["readouts"]:
                    cl["readouts"].pop()
                    break
        elif kind == "octet":
            f["o"][len(f["o"]) // 2] ^= 2
        c["canary"] = kind
        c["id"] = f"canary-{kind}-{c['id']}"
        out.append(c)
    return out


def harvest(chk: Check, traces, verdicts, prefixes, kind="p1-trace"):
    for t, v in zip(traces, verdicts):
        if t["canary"]:
            continue
        for fl in v["fails"]:
            if fl["c"] == "plan":
                raise MachineryError(f"P1 generator produced a plan outside the contract's domain: {t['id']} ({t.get('origin')})")
            if fl["c"].startswith(prefixes):
                chk.violation(f"p1-{fl['c']}-{t.get('origin', '')}",
                              f"TLC rejects P1 trace {t['id']} ({t.get('origin')}): clause {fl['c']} run {fl['run']} at {fl['at']}",
                              {"kind": kind, "trace": t, "verdict": v})
        for d in v["drift"]:
            chk.drift(f"p1 trace {t['id']} ({t.get('origin')}): {d['c']} run {d['run']} call {d['at']}")


def judge_and_harvest(chk: Check, traces, prefixes, what, with_canaries=True):
    if with_canaries:
        traces = traces + canaries_for(traces, chk.rng)
    verdicts = chk.judge("p1", "Trace_P1", traces, what=what)
    harvest(chk, traces, verdicts, prefixes)
    chk.cov["octets_judged"] = chk.cov.get("octets_judged", 0) + sum(trace_octets(t) for t in traces)
    for t in traces:
        if not t["canary"]:
            chk.count(t["id"] if nreadouts(t) > 0 else None)
    return verdicts


def run_models(chk: Check, invariants):
    import os
    quick = chk.tier == "quick"
    path = os.path.join(chk.rundir, "MC_ModeDReader_run.cfg")
    with open(path, "w") as f:
        f.write(f"SPECIFICATION Spec\nCONSTANTS\n MaxSegs = {3 if quick else 4}\n GuardMax = 14\n Pinned = FALSE\n"
                + "".join(f"INVARIANT {i}\n" for i in invariants) + "CHECK_DEADLOCK FALSE\n")
    chk.model("p1", "MC_ModeDReader", path, workers=16, coverage=False, timeout=1500)
    ws = [w for inv, wl in (("CleanDelivered", ["W_TwoDelivered", "W_TailThenClean"]), ("Resync", ["W_ResyncBinds"]), ("BufBounded", ["W_RetainedAtGuard"]))
          if inv in invariants for w in wl]
    if ws:
        chk.witnesses("p1", "MC_ModeDReader", "CONSTANTS\n MaxSegs = 3\n GuardMax = 14\n Pinned = FALSE\n", ws)


def replay_gen(chk: Check):
    """spec -> code: every grammar case of Gen_P1, directly and through the reader under several chunkings."""
    from . import tlc
    from han.dlde import DataReadout
    cases = tlc.export("p1", "Gen_P1", rundir=chk.rundir)
    n = 0
    for c in cases:
        o = bytes(c["o"])
        obs = []
        try:
            obs.append(("direct", readout_record(DataReadout(o))))
        except Exception as ex:  # noqa: BLE001
            obs.append(("direct", {"valid": False, "vraised": type(ex).__name__, "payload": [], "o": list(o), "raised": ""}))
        for cuts in ([len(o)], [1] * len(o), [len(o) // 2, len(o) - len(o) // 2]):
            run = record_run(split(o, cuts))
            ros = [x for cl in run["calls"] for x in cl["readouts"]]
            if len(ros) == 1 and bytes(ros[0]["o"]) == o:
                obs.append(("reader", ros[0]))
            elif c["expect"] == "valid":
                chk.violation("p1-gen-notdelivered", f"spec->code: well-formed readout of Gen_P1 case {c['id']} was not returned by "
                              f"the reader under chunking {cuts[:4]}..", {"kind": "p1-gen", "case": c})
        for how, ro in obs:
            n += 1
            chk.count(f"gen-{c['id']}-{how}")
            bad = None
            if c["expect"] == "valid" and not ro["valid"]:
                bad = "must be valid (C04 c)"
            elif c["expect"] == "invalid" and ro["valid"]:
                bad = "must not be valid (C04 a/b)"
            elif ro["valid"] and ro["payload"] != c["payload"]:
                bad = "payload differs (C04 d)"
            if bad:
                chk.violation(f"p1-gen-{c['expect']}-{c['ck']}", f"spec->code: Gen_P1 case {c['id']} (checksum mode {c['ck']}, {how}): {bad}; "
                              f"is_valid={ro['valid']} raised={ro['vraised']!r}", {"kind": "p1-gen", "case": c})
    chk.cov["behaviours_replayed"] = chk.cov.get("behaviours_replayed", 0) + n
    chk.cov["traces_validated_against_impl"] += n
    chk.sample({"gen_case": {"id": cases[0]["id"], "ck": cases[0]["ck"], "expect": cases[0]["expect"], "readout": bytes(cases[0]["o"]).decode("latin1")}})


# ----------------------------------------------------------------------------- C04
def run_c04(chk: Check) -> int:
    quick = chk.tier == "quick"
    run_models(chk, ["CleanDelivered"])
    chk.model("p1", "MC_DataReadout", workers=8, coverage=False, timeout=600)
    replay_gen(chk)
    traces = direct_variants(chk.rng, quick)
    # through the reader, all single cuts of short readouts and random chunkings
    for ck in ("ok", "none", "lower", "zero", "off", "nonhex"):
        o = mkreadout(b"/ABC5id", [b"1-0:1.8.0(001.5*kWh)"], ck)
        traces.append(make_trace(o, [[len(o)]] + [[c, len(o) - c] for c in range(1, len(o))], mode="free", origin="reader:cuts:" + ck))
    for b in captured_readouts():
        traces.append(make_trace(b + b"\r\n", chunkings(chk.rng, len(b) + 2, 4), mode="free", origin="reader:captured"))
    # through a reader with a history: every noise kind (discarded over-long readouts, never-ending lines, junk), then check-summed readouts;
    # whatever the reader went through before, each delivered readout is judged on C04 a-d
    for k, kind in enumerate(P1_NOISE * (1 if quick else 6)):
        plan = resync_plan(chk.rng, kind, 3)
        data = plan_wire(plan)
        traces.append(make_trace(data, chunkings(chk.rng, len(data), 2), mode="free", origin="reader:history:" + kind))
    judge_and_harvest(chk, traces, ("C04",), "c04-traces")
    t = next(t for t in traces if t["origin"] == "direct:checksum-field")
    ro = t["runs"][0]["calls"][0]["readouts"][0]
    chk.sample({"origin": t["origin"], "readout_tail": bytes(ro["o"][-24:]).decode("latin1"), "is_valid": ro["valid"]})
    chk.assumptions += ["'well-formed identification line' is the IEC 62056-21 shape transcribed in spec/p1/Ident.tla",
                        "readouts with more than one '!' are judged on clause (a) only (DESIGN §8-4)"]
    return chk.finish(rule="spec->code: every Gen_P1 grammar case (10 idents x 4 line sets x 6 checksum modes, real CRC) directly and through the "
                           "reader; code->spec: captured and generated readouts, every single-bit flip ("
                           + ("sampled above 100 octets" if quick else "all") + "), checksum field replaced by 0000/FFFF/correct/"
                           "lower-case/off-by-one/random/absent/non-hex; readers with a history (13 noise kinds, then check-summed readouts); TLC recomputes CRC-16 and the identification check for each; "
                           "non-trivial = distinct readout observation")


def replay_any(chk: Check, rp: dict, prefixes) -> int:
    from han.dlde import DataReadout  # noqa: F401
    if rp.get("kind") == "p1-gen":
        replay_gen(chk)
        return chk.finish(rule="replay of the Gen_P1 cases")
    t = rp["trace"]
    if t["mode"] == "direct":
        o = bytes(t["runs"][0]["calls"][0]["readouts"][0]["o"])
        nt = direct_trace(o, t.get("origin", "replay"))
    else:
        nt = dict(t)
        nt["runs"] = [record_run([bytes(c["chunk"]) for c in run["calls"]]) for run in t["runs"]]
        nt["canary"] = ""
    if nt is not None:
        verdicts = chk.judge("p1", "Trace_P1", [nt], what="replay")
        harvest(chk, [nt], verdicts, prefixes)
    return chk.finish(rule="replay of one recorded trace")


def replay_c04(chk, rp):
    return replay_any(chk, rp, ("C04",))


# ----------------------------------------------------------------------------- C05
def run_c05(chk: Check) -> int:
    quick = chk.tier == "quick"
    run_models(chk, ["CleanDelivered", "BufBounded"])
    chk.sensitivity("p1", "MC_ModeDReader", "CONSTANTS\n MaxSegs = 3\n GuardMax = 14\n Pinned = TRUE\n", "CleanDelivered", what="F5: pinned P1 buffer handling")
    s = chk.seed * 1000 + 5
    traces = pmap(_mk_clean, [(s + i, 5 if quick else 40, True) for i in range(16)])
    judge_and_harvest(chk, traces, ("C05",), "c05-traces")
    t = traces[1]
    chk.sample({"plan_readouts": len([i for i in t["plan"] if i["k"] == "readout"]), "leading_tail": t["plan"][0]["k"] == "tail",
                "stream_octets": sum(len(c["chunk"]) for c in t["runs"][0]["calls"]),
                "chunkings": [sorted(set(len(c["chunk"]) for c in r["calls"]))[:4] for r in t["runs"]],
                "first_readout": bytes(t["runs"][0]["calls"][-1]["readouts"][0]["o"][:60]).decode("latin1") if t["runs"][0]["calls"][-1]["readouts"] else ""})
    chk.assumptions += ["plans are generated in Python but re-encoded (MkReadout, real CRC) and domain-checked by TLC"]
    return chk.finish(rule="model: all wires of <=3/4 segments (3 readouts, tails, 9 junk segments) x all chunkings {1,2,3,5,7,rest}, GuardMax "
                           "scaled to 14; traces: 1..120 back-to-back readouts (varied identification lines, 0..40 data lines, with/without "
                           "checksum, optional leading tail), streams up to several hundred KiB, chunkings incl. fixed sizes readout length "
                           "+-1, sizes > 8 KiB, coprime sizes, per octet; TLC verifies the plan and that delivered = planned, all valid; "
                           "non-trivial = distinct plan x chunking set")


def replay_c05(chk, rp):
    return replay_any(chk, rp, ("C05",))


def guard_sweep_traces(rng: random.Random) -> list[dict]:
    """Readouts whose length crosses the 8191-octet guard exactly at / around the end line, followed by clean readouts."""
    out = []
    for pad in range(0, 24):
        body = b"/ABC5id\r\n" + b"0-0:96.1.0(12345678)\r\n" * 371 + b"1-0:1.8.0(" + b"0" * pad + b"1*kWh)\r\n"
        for end in (b"!\r\n", b"!ABCD\r\n"):
            plan = [item_noise(body + end)] + [item_readout(rng, tag=j, nlines=1) for j in range(2)]
            data = plan_wire(plan)
            nl = len(body + end)
            rest = len(data) - nl
            cuts = [[len(data)], [len(body), len(end)] + [rest], [nl] + [37] * (rest // 37) + ([rest % 37] if rest % 37 else []),
                    [4096] * (len(data) // 4096) + ([len(data) % 4096] if len(data) % 4096 else [])]
            out.append(make_trace(data, cuts, mode="resync", plan=plan, origin="gen:resync:guard_sweep", nodrift=False))
    return out
