"""C11 — P1 data blocks parse into the transmitted data sets and decode with exact units."""
from __future__ import annotations

import datetime
import multiprocessing as mp
import random
from decimal import Decimal

from .core import Check, stable_id
from .tlc import MachineryError

NONE = -1


# ----------------------------------------------------------------------------- canonical values (transport only)
def canon_num(v) -> dict:
    d = Decimal(v) if isinstance(v, int) else Decimal(repr(float(v)))
    if not d.is_finite():
        return {"k": "text", "neg": False, "int": [], "frac": [], "t": list(repr(v).encode()), "dt": []}
    sign, digits, exp = d.as_tuple()
    digits = list(digits)
    if exp >= 0:
        ip, fp = digits + [0] * exp, []
    else:
        p = [0] * max(0, -exp - len(digits) + 1) + digits
        ip, fp = p[:len(p) + exp], p[len(p) + exp:]
    while len(ip) > 1 and ip[0] == 0:
        ip.pop(0)
    if not ip:
        ip = [0]
    while fp and fp[-1] == 0:
        fp.pop()
    zero = ip == [0] and not fp
    return {"k": "num", "neg": bool(sign) and not zero, "int": ip, "frac": fp, "t": [], "dt": []}


def canon(v, places=None) -> dict:
    if isinstance(v, bool):
        return {"k": "text", "neg": False, "int": [], "frac": [], "t": list(str(v).encode()), "dt": []}
    if isinstance(v, int):
        return canon_num(v)
    if isinstance(v, float):
        if places is not None and v == v and abs(v) != float("inf"):
            # `places` significant digits: removes the last-ulp error of  register * 10**-2  without touching any
            # digit the register can carry (a scaled 32-bit register has at most 13 significant digits)
            return canon_num(float(f"{v:.{places}g}"))
        return canon_num(v)
    if isinstance(v, datetime.datetime):
        off = v.utcoffset()
        return {"k": "dt", "neg": False, "int": [], "frac": [], "t": [],
                "dt": [v.year, v.month, v.day, v.hour, v.minute, v.second, v.microsecond, off is not None,
                       int(off.total_seconds() // 60) if off is not None else 0]}
    if isinstance(v, str):
        return {"k": "text", "neg": False, "int": [], "frac": [], "t": list(v.encode("utf-8", "replace")), "dt": []}
    return {"k": "text", "neg": False, "int": [], "frac": [], "t": list(repr(v).encode()), "dt": []}


def entries(d, places=None) -> list:
    out = []
    for k, v in d.items():
        e = canon(v, places)
        e["name"] = str(k)
        e["nametext"] = list(str(k).encode())
        out.append(e)
    return out


_KEPT: list = []        # (dictionary handed out earlier, what it contained then)


def kept_unchanged(places=None) -> bool:
    """A dictionary returned earlier belongs to the caller: later calls into the library must not change it."""
    try:
        return all(entries(d, p) == e for d, e, p in _KEPT)
    except Exception:  # noqa: BLE001
        return False


def call(fn, *a, places=None, twice=True):
    """Call a decode function the way a user may: keep the result, decode again, change one's own copy, decode again."""
    try:
        v = fn(*a)
        if not isinstance(v, dict):
            return {"raised": f"returned {type(v).__name__}", "entries": []}
        e = entries(v, places)
        if not kept_unchanged():
            del _KEPT[:]
            return {"raised": "EarlierResultChanged", "entries": e}
        if twice:
            v.clear()                                   # the caller's own dictionary, to do with as they please
            v2 = fn(*a)
            if not isinstance(v2, dict) or entries(v2, places) != e:
                return {"raised": "SecondCallDiffers", "entries": e}
            v = v2
        _KEPT.append((v, e, places))
        del _KEPT[:-3]
        return {"raised": "", "entries": e}
    except Exception as ex:  # noqa: BLE001
        return {"raised": type(ex).__name__, "entries": []}


# ----------------------------------------------------------------------------- rendering (re-checked by TLC)
def reduced(g) -> str:
    s = ""
    if g[0] != NONE:
        s += f"{g[0]}-"
    if g[1] != NONE:
        s += f"{g[1]}:"
    s += f"{g[2]}.{g[3]}"
    if g[4] != NONE:
        s += f".{g[4]}"
    if g[5] != NONE:
        s += f"*{g[5]}"
    return s


def render(block, eol: bytes) -> bytes:
    out = b""
    for line in block:
        for ds in line:
            out += reduced(ds["groups"]).encode()
            for v in ds["values"]:
                out += b"(" + bytes(v["value"]) + ((b"*" + bytes(v["unit"])) if v["hasunit"] else b"") + b")"
        out += eol
    return out


_HIST = []   # one AutoDecoder per process whose whole history consists of genuine P1 messages (C12: "history of genuine messages of the same meter")


def record(block, eol: str, text: bytes, ident: bytes, origin: str) -> dict:
    from han import dlde
    from han.autodecoder import AutoDecoder
    if not _HIST:
        _HIST.append(AutoDecoder())
    try:
        items = dlde.parse_p1_readout_content(text)
        parse = {"raised": "", "items": [{"addr": list((d.address or "").encode()),
                                          "values": [{"value": list(x.value.encode()), "unit": list((x.unit or "").encode()), "hasunit": x.unit is not None}
                                                     for x in d.values]} for d in items]}
    except Exception as ex:  # noqa: BLE001
        parse = {"raised": type(ex).__name__, "items": []}
    content = call(dlde.decode_p1_readout_content, text)
    auto = call(AutoDecoder().decode_message_payload, text)
    if auto["raised"] == "returned NoneType":
        auto["raised"] = "None"
    autoh = call(_HIST[0].decode_message_payload, text, twice=False)
    if autoh["raised"] == "returned NoneType":
        autoh["raised"] = "None"
    readout = {"raised": "", "entries": []}
    automsg = {"raised": "", "entries": []}
    if ident:
        try:
            ro = dlde.DataReadout(ident + b"\r\n" + text + b"!\r\n")
            readout = call(dlde.decode_p1_readout, ro)
        except Exception as ex:  # noqa: BLE001
            readout = {"raised": type(ex).__name__, "entries": []}
        try:
            automsg = call(_HIST[0].decode_message, dlde.DataReadout(ident + b"\r\n" + text + b"!\r\n"), twice=False)
        except Exception as ex:  # noqa: BLE001
            automsg = {"raised": type(ex).__name__, "entries": []}
    return {"id": stable_id("p1dec", text.hex(), ident.hex()), "canary": "", "origin": origin, "block": block, "eol": eol, "text": list(text),
            "ident": list(ident), "parse": parse, "content": content, "readout": readout, "auto": auto, "autoh": autoh, "automsg": automsg}


# ----------------------------------------------------------------------------- random blocks
KNOWN = [(0, 2, 129), (96, 1, 0), (96, 1, 7), (1, 7, 0), (21, 7, 0), (2, 7, 0), (3, 7, 0), (4, 7, 0), (31, 7, 0), (51, 7, 0), (71, 7, 0),
         (32, 7, 0), (52, 7, 0), (72, 7, 0), (1, 8, 0), (2, 8, 0), (3, 8, 0), (4, 8, 0), (41, 7, 0), (61, 7, 0), (22, 7, 0)]
UNITS = [b"V", b"A", b"var", b"varh", b"kW", b"kWh", b"kvar", b"kvarh", b"KW", b"kwh", b"kVAr", b"kVArh", b"v", b"a", b"VAR", b"s", b"m3", b"Hz"]
TEXTCH = bytes(c for c in range(32, 127) if c not in b"()*/!")


def rand_decimal(rng: random.Random) -> bytes:
    ip = "0" * rng.choice([0, 0, 1, 4, 8, 8, 19, 22, 24]) + str(rng.choice([0, 1, 9, 12, 230, 999, 4096, 65535, 123456, 99999999, rng.randrange(10 ** rng.randint(1, 9))]))
    nf = rng.choice([0, 1, 2, 3, 3])
    if nf == 0:
        return ip.encode() if rng.random() < 0.8 else (ip + ".").encode()
    return (ip + "." + "".join(rng.choice("0123456789") for _ in range(nf))).encode()


def rand_block(rng: random.Random):
    used = set()
    block = []
    for _ in range(rng.randint(1, 8)):
        if rng.random() < 0.15:
            block.append([])
            continue
        line = []
        for _ in range(rng.choice([1, 1, 1, 2, 3])):
            for _try in range(20):
                cde = rng.choice(KNOWN) if rng.random() < 0.7 else (rng.randint(0, 255), rng.randint(0, 255), rng.randint(0, 255))
                if cde not in used and cde != (1, 0, 0):
                    break
            used.add(cde)
            g = [rng.choice([NONE, 0, 1]), rng.choice([NONE, 0, 1, 2]), cde[0], cde[1], cde[2], rng.choice([NONE, NONE, 255])]
            nv = rng.choice([1, 1, 1, 1, 2, 3])
            vals = []
            for _ in range(nv):
                if rng.random() < 0.75:
                    vals.append({"value": list(rand_decimal(rng)), "unit": list(rng.choice(UNITS)), "hasunit": True})
                else:
                    vals.append({"value": list(bytes(rng.choice(TEXTCH) for _ in range(rng.randint(0, 20)))), "unit": [], "hasunit": False})
            line.append({"groups": g, "values": vals})
        block.append(line)
    if not any(block):
        block.append([{"groups": [1, 0, 1, 7, 0, NONE], "values": [{"value": list(b"1.5"), "unit": list(b"kW"), "hasunit": True}]}])
    if rng.random() < 0.5 and (1, 0, 0) not in used:
        y, mo, d = rng.randint(0, 99), rng.randint(1, 12), rng.randint(1, 28)
        hh, mi, ss = rng.randint(0, 23), rng.randint(0, 59), rng.randint(0, 59)
        from .core import dst_wall_times
        gaps = dst_wall_times()
        if gaps and rng.random() < 0.4:         # a civil time the HOST's zone skips or repeats: the meter's clock is the meter's, not the host's
            gy, mo, d, hh, mi, ss, _ = rng.choice(gaps)
            y = gy % 100
        clock = b"%02d%02d%02d%02d%02d%02d" % (y, mo, d, hh, mi, ss) + rng.choice([b"W", b"S", b""])
        block.insert(rng.randint(0, len(block)), [{"groups": [0, 0, 1, 0, 0, NONE], "values": [{"value": list(clock), "unit": [], "hasunit": False}]}])
    return block


def _job(args):
    from .core import set_logging
    set_logging(args)
    from .drv_p1 import rand_ident
    seed, n = args
    rng = random.Random(seed)
    out = []
    for _ in range(n):
        block = rand_block(rng)
        eol = rng.choice(["crlf", "lf"])
        text = render(block, b"\r\n" if eol == "crlf" else b"\n")
        ident = rand_ident(rng) if rng.random() < 0.6 else b""
        out.append(record(block, eol, text, ident, "gen:random"))
    return out


def run_c11(chk: Check) -> int:
    from . import tlc
    quick = chk.tier == "quick"
    # the parse relation's termination/shape model is shared with C15
    chk.model("p1", "MC_P1Parse", workers=16, coverage=False, timeout=600)
    cases = tlc.export("p1", "Gen_P1Dec", rundir=chk.rundir, timeout=600, xmx="6g")
    traces = []
    from .core import set_logging
    for i, c in enumerate(cases):
        set_logging(i)
        ident = b"/LGF5E360" if i % 7 == 0 else b""
        traces.append(record(c["block"], c["eol"], bytes(c["text"]), ident, "tlc:Gen_P1Dec"))
    chk.cov["behaviours_replayed"] = len(cases)
    with mp.Pool(16) as pool:
        res = pool.map(_job, [(chk.seed * 1000 + 11 + i, 60 if quick else 6000) for i in range(16)])
    traces += [t for r in res for t in r]
    seen, uniq = set(), []
    for t in traces:
        if t["id"] not in seen:
            seen.add(t["id"])
            uniq.append(t)
    traces = uniq
    import copy
    can = []
    src = next(t for t in traces if t["content"]["entries"] and any(e["k"] == "num" for e in t["content"]["entries"]))
    c = copy.deepcopy(src)
    e = next(e for e in c["content"]["entries"] if e["k"] == "num")
    e["int"] = [9] + e["int"]
    c["canary"], c["id"] = "value", "canary-value"
    can.append(c)
    c = copy.deepcopy(src)
    c["parse"]["items"] = c["parse"]["items"][:-1]
    c["canary"], c["id"] = "dropped_dataset", "canary-dropped"
    can.append(c)
    traces += can
    verdicts = chk.judge("p1", "Trace_P1Dec", traces, what="c11-blocks")
    for t, v in zip(traces, verdicts):
        if t["canary"]:
            continue
        chk.count(t["id"])
        if not v["ok"]:
            if v["clause"] == "plan":
                raise MachineryError(f"P1 block generator outside the domain: {bytes(t['text'])!r}")
            chk.violation(f"p1dec-{v['clause']}", f"TLC rejects decode of block {bytes(t['text'])[:120]!r} ident {bytes(t['ident'])!r}: clause {v['clause']}; "
                          f"content={[(e['name'], e['k'], e['int'], e['frac']) for e in t['content']['entries']][:4]} raised={t['content']['raised']!r}",
                          {"kind": "p1dec-trace", "trace": t, "verdict": v})
    t = traces[len(cases) + 1]
    chk.sample({"text": bytes(t["text"]).decode("latin1")[:200], "ident": bytes(t["ident"]).decode("latin1"),
                "decoded": [(e["name"], e["k"], "".join(map(str, e["int"])) + ("." + "".join(map(str, e["frac"])) if e["frac"] else "")) for e in t["content"]["entries"]][:6]})
    chk.assumptions += ["decoded floats are compared through repr() (shortest round-trip decimal; exact for <= 15 significant digits)",
                        "domain: unsigned decimals with 0..3 fractional digits, addresses with group E present (DESIGN §8-3)"]
    return chk.finish(rule="spec->code: TLC-enumerated blocks (truncation sweep over all 1000 three-digit fractions x 3 integer parts, kilo units, block "
                           "shapes with several data sets per line, multi-valued sets, blank lines, clock, unknown codes, LF/CRLF); code->spec: random "
                           "blocks (known/unknown addresses, 1..3 values, units in any letter case, leading zeros) with random identification lines; TLC "
                           "re-renders each block, then judges parse result, decoded dictionary (kilo units within one below the exact product), "
                           "identification fields and equality of the decode paths (decode_p1_readout_content, decode_p1_readout, a fresh AutoDecoder, and one "
                           "AutoDecoder per worker with a history of P1 messages through decode_message_payload and decode_message(DataReadout)); "
                           "non-trivial = distinct block")


def replay_c11(chk: Check, rp: dict) -> int:
    t = rp["trace"]
    record(t["block"], t["eol"], bytes(t["text"]), bytes(t["ident"]), "replay")        # history: the same message once before
    nt = record(t["block"], t["eol"], bytes(t["text"]), bytes(t["ident"]), "replay")
    v = chk.judge("p1", "Trace_P1Dec", [nt], what="replay")[0]
    if not v["ok"]:
        chk.violation(f"p1dec-{v['clause']}", f"still rejected: {v}", {"kind": "p1dec-trace", "trace": nt, "verdict": v})
    return chk.finish(rule="replay of one block")
