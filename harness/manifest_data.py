"""Texts for MANIFEST.json (kept next to the drivers so they stay true)."""

ENGINES = [
    {"name": "tlc", "path": "harness/tlc.py", "serves_properties": [],
     "kind_free_text": "TLC 1.8 model checker: exhaustive Impl=>Contract runs on bounded models, ASSUME-mode batch judging of recorded traces, generator modules (spec -> code)"},
]

NOTES = ("Model-based verification with explicit TLA+ specifications (spec/). Per subsystem: contract spec + "
         "implementation-shaped spec, TLC checks Impl => Contract on bounded models; conformance in both directions "
         "(TLC-generated behaviours replayed into the code; recorded executions of the code judged by TLC). "
         "VIOLATION only when TLC rejects a concrete execution of the real code against the contract. See DESIGN.md.")

NOT_APPLICABLE = {}

CHECKS = {
    "C03": {
        "text": "TLC proves, exhaustively over all 2^16 registers x 2^8 octets, that the table step equals the bit-serial RFC 1662 "
                "step, plus the residue/injectivity lemmas from which 'is_good <=> trailer = FCS low octet first' follows for every "
                "message; the real update() is then replayed on every register (all 2^24 pairs in the thorough tier) against the "
                "TLC-exported table, and recorded update/checksum/is_good/compute_checksum traces are judged by TLC bit-serially. "
                "A pure function over a finite step space: exhaustive checking is the right level.",
        "design_ref": "§6-C03",
        "note": "trusted: transcription of RFC 1662 App. C into spec/common/Fcs16.tla (BitStep); TLC Bitwise overrides; the sweep's "
                "table comparison runs in Python (equality only). Induction on length is by argument (module header), not mechanised.",
        "technique": "TLC exhaustive model check of the step function + exhaustive spec->code replay + TLC trace judging",
    },
}
