"""Texts for MANIFEST.json (kept next to the drivers so they stay true)."""

ENGINES = [
    {"name": "tlc", "path": "harness/tlc.py", "serves_properties": [],
     "kind_free_text": "TLC 1.8 model checker: exhaustive Impl=>Contract runs on bounded models, ASSUME-mode batch judging of recorded traces, generator modules (spec -> code)"},
]

NOTES = ("Model-based verification with explicit TLA+ specifications (spec/). Per subsystem: contract spec + "
         "implementation-shaped spec, TLC checks Impl => Contract on bounded models; conformance in both directions "
         "(TLC-generated behaviours replayed into the code; recorded executions of the code judged by TLC). "
         "VIOLATION only when TLC rejects a concrete execution of the real code against the contract. See DESIGN.md.")

NOT_APPLICABLE = {}

CHECKS = {
    "C03": {
        "text": "TLC proves, exhaustively over all 2^16 registers x 2^8 octets, that the table step equals the bit-serial RFC 1662 "
                "step, plus the residue/injectivity lemmas from which 'is_good <=> trailer = FCS low octet first' follows for every "
                "message; the real update() is then replayed on every register (all 2^24 pairs in the thorough tier) against the "
                "TLC-exported table, and recorded update/checksum/is_good/compute_checksum traces are judged by TLC bit-serially. "
                "A pure function over a finite step space: exhaustive checking is the right level.",
        "design_ref": "§6-C03",
        "note": "trusted: transcription of RFC 1662 App. C into spec/common/Fcs16.tla (BitStep); TLC Bitwise overrides; the sweep's "
                "table comparison runs in Python (equality only). Induction on length is by argument (module header), not mechanised.",
        "technique": "TLC exhaustive model check of the step function + exhaustive spec->code replay + TLC trace judging",
    },
}

_BIND = ("bound to the code in both directions: TLC-generated behaviours are replayed into the real object (spec->code) and recorded "
         "executions of the real object are judged by TLC against the contract (code->spec), with deliberately corrupted canary traces "
         "in every batch")

CHECKS.update({
    "C01": {
        "text": "Contract (valid <=> intact with TLC's own FCS-16, exact accessors, disjoint in-order flag-delimited segments) is checked by "
                "TLC on every frame of every recorded execution of the real reader, and as invariants of the implementation-shaped reader "
                "model (with its buffer layer) over all wires of a segment library under all chunkings, 4 configurations. " + _BIND + ".",
        "design_ref": "§6-C01",
        "note": "frames above ~12 octets are sampled, not enumerated; segmentation witnesses are searched in Python and verified by TLC; "
                "trusted: TLC, CommunityModules Bitwise/Json overrides, the recording transport",
        "technique": "TLA+ contract + implementation-shaped reader spec, TLC refinement check, two-way trace conformance",
    },
    "C02": {
        "text": "TLC re-derives every planned frame with its reference encoder (MkFrame/Stuff), checks the plan is in the statement's domain, "
                "and that the valid deliveries of the real reader equal the planned frames exactly once and in order with exact fields, for "
                "every chunking recorded; the bounded model proves the same for all clean wires of its library under all chunkings. " + _BIND + ".",
        "design_ref": "§6-C02",
        "note": "frame sizes/payloads sampled (0..max incl. 2047-octet frames); extra invalid deliveries on a clean stream are not forbidden "
                "by the statement and ignored",
        "technique": "TLC-verified generation plans + TLC trace judging + bounded model invariant CleanDelivered",
    },
    "C04": {
        "text": "TLC recomputes CRC-16/ARC and the identification-line check for every observed readout (built directly and through the "
                "reader): valid => well-formed ident; checksum present and different => not valid (incl. 0000, case variants); well-formed "
                "and correct => valid; payload exact. MC_DataReadout checks the implementation-shaped is_valid against the four clauses on "
                "a readout grammar; Gen_P1 cases with real CRC are replayed into the code. " + _BIND + ".",
        "design_ref": "§6-C04",
        "note": "bit-flip neighbourhoods of captured/generated readouts (sampled in quick above 100 octets); readouts with several '!' are "
                "judged on clause (a) only",
        "technique": "TLA+ readout contract judged by TLC on recorded observations + grammar-case generation from the spec",
    },
    "C05": {
        "text": "Bounded model of the line-oriented reader with its buffer and (scaled) guard: every complete readout of a clean stream is "
                "delivered exactly once under ALL chunkings (TLC finds the lost-readout schedules of the pinned design); real reader: "
                "TLC-verified plans of up to 120 back-to-back readouts (hundreds of KiB) under chunkings incl. the model's counterexample "
                "family, deliveries judged by TLC. " + _BIND + ".",
        "design_ref": "§6-C05",
        "note": "guard scaled to 14 octets in the model (8191 in the code); readout contents sampled",
        "technique": "TLC model of the reader+buffer (all chunkings) + TLC-verified plans + trace judging",
    },
    "C06": {
        "text": "Model invariant Refines: after every call, reader state and all outputs equal the buffer-free per-octet fold of everything fed "
                "(all chunkings of all library wires). Real code: exhaustive small scope (all 6^7 bodies over a structural alphabet as "
                "7E.body.7E.tail, 4 configurations, whole/per-octet/cut chunkings) plus random streams under >=5 chunkings; TLC judges that "
                "all runs of a stream return the same frames. " + _BIND + ".",
        "design_ref": "§6-C06",
        "note": "small-scope alphabet {7E,7D,5E,A0,07,02}; streams on which no chunking returns a frame are vacuous (counted, 1% still judged)",
        "technique": "TLC refinement invariant + exhaustive small-scope differential chunking judged by TLC",
    },
    "C16": {
        "text": "From every reachable state of the bounded HDLC and P1 reader models a clean suffix is delivered within the stated loss "
                "bound (TLC invariant Resync; scaled maximum length / guard); real readers: 9 HDLC and 12 P1 noise-prefix kinds incl. escape-"
                "terminated, aborted, over-long, near-guard prefixes followed by TLC-verified clean suffixes, judged by TLC. " + _BIND + ".",
        "design_ref": "§6-C16, §8-9",
        "note": "without stuffing the clean suffix consists of flag-free frames (a flag inside a later payload re-opens the ambiguity the "
                "bound excludes, for any reader); suffix messages are pairwise distinct",
        "technique": "TLC invariant over all reachable reader states + TLC-verified resync plans judged on recorded executions",
    },
    "C17": {
        "text": "Task-level TLA+ model of connect_loop/close/_try_connect (one action per stretch between awaits, environment close/loss/"
                "outcomes, arbitrary interleaving of ready tasks) checked against the contract monitor exhaustively; the real manager runs "
                "on a deterministic virtual-time loop for every outcome script x lifetime pattern with close() injected at EVERY loop "
                "iteration, plus thousands of reconnect cycles; each event trace is judged by TLC with the same contract operators.",
        "design_ref": "§6-C17",
        "note": "events are recorded by harness-owned fakes (factory, transport); interleavings of the real loop are those reachable by "
                "moving close() across iterations (asyncio's ready queue is FIFO); task bound 8",
        "technique": "TLC model checking of the task model against the contract + trace validation of virtual-time executions",
    },
    "C18": {
        "text": "BackOff contract min(2^(n-1), max) checked by TLC on the implementation-shaped strategy for all sequences to 14 and on "
                "recorded sequences of the real object (all 2^12/2^14 sequences, random to 200, max_delay 1..3600); attempt times of the "
                "real manager on the virtual clock are judged by TLC against the lower/upper pacing bounds and the loss breaker.",
        "design_ref": "§6-C18",
        "note": "manager clock rebinding from the harness; slack 0.5 s virtual",
        "technique": "TLC model check + TLC judging of recorded strategy sequences and virtual-time manager traces",
    },
    "C19": {
        "text": "Model invariant BufBounded (retained octets <= K + last chunk) over all reachable states of both reader models with scaled "
                "limits (this is how TLC found the flag-fill growth of the non-stuffing reader); real readers: 16 stream patterns incl. the "
                "model-derived growth cycles, 256 KiB..16 MiB, chunk sizes 1..64 KiB, deep size sampled and judged by TLC (bound + trend).",
        "design_ref": "§6-C19",
        "note": "Python object sizes are measured (sys.getsizeof over gc referents), not modelled; constant 64 KiB + 2 x chunk",
        "technique": "TLC invariant on the buffer model + measured memory samples judged by TLC",
    },
})
