"""Texts for MANIFEST.json (kept next to the drivers so they stay true)."""

ENGINES = [
    {"name": "tlc", "path": "harness/tlc.py", "serves_properties": [],
     "kind_free_text": "TLC 1.8 model checker: exhaustive Impl=>Contract runs on bounded models, ASSUME-mode batch judging of recorded traces, generator modules (spec -> code)"},
]

NOTES = ("Model-based verification with explicit TLA+ specifications (spec/). Per subsystem: contract spec + "
         "implementation-shaped spec, TLC checks Impl => Contract on bounded models; conformance in both directions "
         "(TLC-generated behaviours replayed into the code; recorded executions of the code judged by TLC). "
         "VIOLATION only when TLC rejects a concrete execution of the real code against the contract. Every TLC batch carries "
         "canary traces that must be rejected; model runs carry vacuity guards (witness predicates TLC must reach, actions never "
         "taken) and sensitivity guards (the pinned-tree variant of the implementation-shaped spec must violate the invariant); a "
         "failed guard is exit 2, never a pass. Every check runs its quick workload a second time under python -O with another "
         "PYTHONHASHSEED; drivers rotate the process environment (time zone, decimal precision, logging configuration, process clocks) "
         "and keep bystander instances and earlier results alive, since no statement depends on any of these. See DESIGN.md.")

NOT_APPLICABLE = {}

CHECKS = {
    "C03": {
        "text": "TLC proves, exhaustively over all 2^16 registers x 2^8 octets, that the table step equals the bit-serial RFC 1662 "
                "step, plus the residue/injectivity lemmas from which 'is_good <=> trailer = FCS low octet first' follows for every "
                "message; the real update() is then replayed on every register (all 2^24 pairs in the thorough tier) against the "
                "TLC-exported table, and recorded update/checksum/is_good/compute_checksum traces are judged by TLC bit-serially. "
                "A pure function over a finite step space: exhaustive checking is the right level.",
        "design_ref": "§6-C03",
        "note": "trusted: transcription of RFC 1662 App. C into spec/common/Fcs16.tla (BitStep); TLC Bitwise overrides; the sweep's "
                "table comparison runs in Python (equality only). Induction on length is by argument (module header), not mechanised.",
        "technique": "TLC exhaustive model check of the step function + exhaustive spec->code replay + TLC trace judging",
    },
}

_BIND = ("bound to the code in both directions: TLC-generated behaviours are replayed into the real object (spec->code) and recorded "
         "executions of the real object are judged by TLC against the contract (code->spec), with deliberately corrupted canary traces "
         "in every batch")

CHECKS.update({
    "C01": {
        "text": "Contract (valid <=> intact with TLC's own FCS-16, exact accessors, disjoint in-order flag-delimited segments) is checked by "
                "TLC on every frame of every recorded execution of the real reader, and as invariants of the implementation-shaped reader "
                "model (with its buffer layer) over all wires of a segment library under all chunkings, 4 configurations. " + _BIND + ". "
                "Beyond the property: accessor values on partial frames (HdlcFrame.append octet by octet) are judged against spec/hdlc/"
                "HdlcPartial.tla at DRIFT level.",
        "design_ref": "§6-C01",
        "note": "frames above ~12 octets are sampled, not enumerated; segmentation witnesses are searched in Python and verified by TLC; "
                "trusted: TLC, CommunityModules Bitwise/Json overrides, the recording transport",
        "technique": "TLA+ contract + implementation-shaped reader spec, TLC refinement check, two-way trace conformance",
    },
    "C02": {
        "text": "TLC re-derives every planned frame with its reference encoder (MkFrame/Stuff), checks the plan is in the statement's domain, "
                "and that the valid deliveries of the real reader equal the planned frames exactly once and in order with exact fields, for "
                "every chunking recorded; the bounded model proves the same for all clean wires of its library under all chunkings. " + _BIND + ".",
        "design_ref": "§6-C02",
        "note": "frame sizes/payloads sampled (0..max incl. 2047-octet frames); extra invalid deliveries on a clean stream are not forbidden "
                "by the statement and ignored",
        "technique": "TLC-verified generation plans + TLC trace judging + bounded model invariant CleanDelivered",
    },
    "C04": {
        "text": "TLC recomputes CRC-16/ARC and the identification-line check for every observed readout (built directly and through the "
                "reader): valid => well-formed ident; checksum present and different => not valid (incl. 0000, case variants); well-formed "
                "and correct => valid; payload exact. MC_DataReadout checks the implementation-shaped is_valid against the four clauses on "
                "a readout grammar; Gen_P1 cases with real CRC are replayed into the code. " + _BIND + ".",
        "design_ref": "§6-C04",
        "note": "bit-flip neighbourhoods of captured/generated readouts (sampled in quick above 100 octets); readouts with several '!' are "
                "judged on clause (a) only",
        "technique": "TLA+ readout contract judged by TLC on recorded observations + grammar-case generation from the spec",
    },
    "C05": {
        "text": "Bounded model of the line-oriented reader with its buffer and (scaled) guard: every complete readout of a clean stream is "
                "delivered exactly once under ALL chunkings (TLC finds the lost-readout schedules of the pinned design); real reader: "
                "TLC-verified plans of up to 120 back-to-back readouts (hundreds of KiB) under chunkings incl. the model's counterexample "
                "family, deliveries judged by TLC. " + _BIND + ".",
        "design_ref": "§6-C05",
        "note": "guard scaled to 14 octets in the model (8191 in the code); readout contents sampled",
        "technique": "TLC model of the reader+buffer (all chunkings) + TLC-verified plans + trace judging",
    },
    "C06": {
        "text": "Model invariant Refines: after every call, reader state and all outputs equal the buffer-free per-octet fold of everything fed "
                "(all chunkings of all library wires). Real code: exhaustive small scope (all 6^7 bodies over a structural alphabet as "
                "7E.body.7E.tail, 4 configurations, whole/per-octet/cut chunkings) plus random streams under >=5 chunkings; TLC judges that "
                "all runs of a stream return the same frames. " + _BIND + ".",
        "design_ref": "§6-C06",
        "note": "small-scope alphabet {7E,7D,5E,A0,07,02}; streams on which no chunking returns a frame are vacuous (counted, 1% still judged)",
        "technique": "TLC refinement invariant + exhaustive small-scope differential chunking judged by TLC",
    },
    "C16": {
        "text": "From every reachable state of the bounded HDLC and P1 reader models a clean suffix is delivered within the stated loss "
                "bound (TLC invariant Resync; scaled maximum length / guard); real readers: 9 HDLC and 12 P1 noise-prefix kinds incl. escape-"
                "terminated, aborted, over-long, near-guard prefixes followed by TLC-verified clean suffixes, judged by TLC. " + _BIND + ".",
        "design_ref": "§6-C16, §8-9",
        "note": "without stuffing the clean suffix consists of flag-free frames (a flag inside a later payload re-opens the ambiguity the "
                "bound excludes, for any reader); suffix messages are pairwise distinct",
        "technique": "TLC invariant over all reachable reader states + TLC-verified resync plans judged on recorded executions",
    },
    "C17": {
        "text": "Task-level TLA+ model of connect_loop/close/_try_connect (one action per stretch between awaits, environment close/loss/"
                "outcomes, arbitrary interleaving of ready tasks) checked against the contract monitor exhaustively; the real manager runs "
                "on a deterministic virtual-time loop for every outcome script x lifetime pattern with close() injected at EVERY loop "
                "iteration, plus thousands of reconnect cycles and second connect_loop() runs on the same manager; each event trace is judged "
                "by TLC with the same contract operators, and a sample of executions is additionally validated against the task model itself "
                "(Trace_ConnTasks: silent internal steps bounded by the next logged time stamp; rejection = DRIFT).",
        "design_ref": "§6-C17",
        "note": "events are recorded by harness-owned fakes (factory, transport); interleavings of the real loop are those reachable by "
                "moving close() across iterations (asyncio's ready queue is FIFO); task bound 8",
        "technique": "TLC model checking of the task model against the contract + trace validation of virtual-time executions",
    },
    "C18": {
        "text": "BackOff contract min(2^(n-1), max) checked by TLC on the implementation-shaped strategy for all sequences to 14 and on "
                "recorded sequences of the real object (all 2^12/2^14 sequences, random to 200, max_delay 1..3600); attempt times of the "
                "real manager on the virtual clock are judged by TLC against the lower/upper pacing bounds and the loss breaker.",
        "design_ref": "§6-C18",
        "note": "manager clock rebinding from the harness; slack 0.5 s virtual",
        "technique": "TLC model check + TLC judging of recorded strategy sequences and virtual-time manager traces",
    },
    "C19": {
        "text": "Model invariant BufBounded (retained octets <= K + last chunk) over all reachable states of both reader models with scaled "
                "limits (this is how TLC found the flag-fill growth of the non-stuffing reader); real readers: 16 stream patterns incl. the "
                "model-derived growth cycles, 256 KiB..16 MiB, chunk sizes 1..64 KiB, deep size sampled and judged by TLC (bound + trend).",
        "design_ref": "§6-C19",
        "note": "Python object sizes are measured (sys.getsizeof over gc referents), not modelled; constant 64 KiB + 2 x chunk",
        "technique": "TLC invariant on the buffer model + measured memory samples judged by TLC",
    },
})

_GEN = ("This is the weakest fit for the family (a pure decode function): the specification contributes the case analysis, a reference encoder "
        "and the expected values; TLC enumerates abstract messages (spec->code) and judges every decoded dictionary, re-encoding each abstract "
        "message itself so that the Python-side encoder is not trusted (code->spec).")

CHECKS.update({
    "C07": {"text": "Aidon push lists: TLC enumerates the documented list layouts x register value classes (0, 1, sign boundaries, max) x scaler -3..3 in "
                    "frame and body form, encodes them with the specification's A-XDR encoder and states Meaning; every captured message is re-encoded "
                    "byte for byte by TLC; random full-range registers, strings, clocks, subsets and orders are judged by TLC against Meaning, in both "
                    "forms. MC_Cosem checks the specification itself (forms agree, keys distinct, announced lengths). " + _GEN,
            "design_ref": "§6-C07..C09", "note": "register space sampled beyond the boundary classes; floats compared through repr() (exact for <=15 digits)",
            "technique": "TLA+ reference encoder + Meaning, TLC enumeration of abstract messages, TLC judging of decoded dictionaries"},
    "C08": {"text": "Kaifa lists: five positional layouts (1/9/13/14/18) and the OBIS-tagged list x register value classes x APDU clock forms, enumerated "
                    "and encoded by TLC; Meaning states position->field, currents /1000, voltages /10, list clock over APDU clock, manufacturer; captured "
                    "messages re-encoded by TLC; random full-range registers/strings/clocks judged by TLC in both forms. " + _GEN,
            "design_ref": "§6-C07..C09", "note": "numeric equality after rounding to 15 significant digits (the statement does not ask for correct rounding)",
            "technique": "TLA+ reference encoder + Meaning, TLC enumeration of abstract messages, TLC judging of decoded dictionaries"},
    "C09": {"text": "Kamstrup lists: 10-second and hourly lists, one/three phase x register classes x meter types (incl. 685.. CT types and near misses) x "
                    "null-padding patterns x tagged/untagged APDU clock; Meaning states currents /100 (/1000 for CT), energies x10, APDU clock for frames; "
                    "captured messages re-encoded by TLC; random variants judged by TLC in both forms. " + _GEN,
            "design_ref": "§6-C07..C09", "note": "numeric equality after rounding to 15 significant digits; only OBIS codes with a common name (the decoder's domain)",
            "technique": "TLA+ reference encoder + Meaning, TLC enumeration of abstract messages, TLC judging of decoded dictionaries"},
    "C10": {"text": "COSEM date-time in each of the six syntactic positions (APDU tagged/untagged, Aidon element, Kaifa positional and OBIS element, "
                    "Kamstrup element): TLC enumerates boundary dates, times, hundredths {0,1,50,99,FF}, deviations {0,+-1,+-60,+-720,unspecified}, all "
                    "256 status octets, day-of-week values, and states DtMeaning (civil fields, microseconds, UTC offset = -deviation); random valid "
                    "date-times are judged by TLC. " + _GEN,
            "design_ref": "§6-C10", "note": "calendar space sampled beyond the enumerated boundaries",
            "technique": "TLA+ DtMeaning + reference encoder, TLC enumeration, TLC judging"},
    "C11": {"text": "P1 data blocks: the specification renders abstract blocks (Render), states the parse relation (Parsed) and the unit-driven Meaning on "
                    "exact decimal digit sequences (kilo units: within one below the exact product); TLC enumerates a truncation sweep over all 1000 "
                    "three-digit fractions and block shapes, and judges parse result, decoded dictionary, identification fields and equality of the "
                    "three decode paths for random blocks, re-rendering each block itself. The line parser's termination model is shared with C15. " + _GEN,
            "design_ref": "§6-C11", "note": "domain: unsigned decimals with <=3 fractional digits, addresses with group E present, >=1 data set",
            "technique": "TLA+ Render/Parsed/Meaning, TLC enumeration + TLC judging of recorded parse/decode results"},
    "C12": {"text": "AutoDecoder: the cyclic-scan state machine is model-checked against the contract over all histories <=3 x all 2^7 acceptance vectors; "
                    "every (remembered decoder x acceptance vector) transition is replayed into the real class with stub decoders; real decoders: all "
                    "histories <=2 (<=3 thorough) over a pool of every captured message in both forms, P1 blocks and junk, random histories to 30, "
                    "same-meter histories, decode_message vs decode_message_payload in lockstep; each call judged by TLC from the measured acceptance vector.",
            "design_ref": "§6-C12", "note": "'accepts' = returns a dictionary when called alone; result identity = dictionary equality",
            "technique": "TLC model check of the decoder-selection machine + full transition replay + TLC judging of recorded histories"},
    "C13": {"text": "Protocols: implementation-shaped data_received is model-checked against the contract (2 readers x <=2 messages per call x 3 calls x "
                    "both variants); every first call of that space (+ representative second calls) is replayed with scripted readers; real readers in 8 "
                    "candidate lists on clean/corrupted/mixed streams are recorded through proxies (anonymous, or one recording subclass per library reader "
                    "class so that the reader kind stays visible; a fixed HDLC/P1 history of protocol instances per process) and each call is judged by TLC "
                    "(selection, exact queue delta, nothing before selection, end-to-end payloads / message count on clean streams).",
            "design_ref": "§6-C13", "note": "payload identity by content, message identity by object",
            "technique": "TLC model check + generated-behaviour replay + TLC judging of recorded data_received histories"},
    "C14": {"text": "Every exception out of read(), is_valid, payload, as_bytes, message_type or data_received() is recorded as an event the contract has no "
                    "counterpart for and is rejected by TLC; noise of four structure-biased kinds x chunkings x both readers (4 HDLC configurations) x "
                    "both protocol classes with [HDLC,P1]/[P1,HDLC]; each trace continues with a clean suffix judged per C16. The reader models are total "
                    "(no deadlock/undefined step for any octet in any reachable state).",
            "design_ref": "§6-C14", "note": "byte space sampled with bias to structural characters",
            "technique": "TLC trace judging (no-raise + resync clauses) over structure-biased noise; totality of the reader specs"},
    "C15": {"text": "Termination of the P1 line parser is an action property (scan position strictly advances) checked by TLC for ALL lines <=7/8 over "
                    "{a,(,),*} (TLC finds the lasso of the pinned tree); the spec's parse result for every such line is replayed into parse_data_block; "
                    "every truncation and 1..5-octet mutation class of every captured message, random bytes, ASCII fragments and crafted values are decoded "
                    "from several remembered-decoder states under an alarm, an address-space limit and a profile-event counter; outcomes judged by TLC.",
            "design_ref": "§6-C15", "note": "the polynomial cost clause is a measurement against a generous bound, not a proof",
            "technique": "TLC action property for termination + exhaustive small-scope replay + sandboxed mutation runs judged by TLC"},
    "C20": {"text": "OBIS: the specification renders value groups in both syntaxes; MC_Obis proves the renderings injective on the group space (design-level "
                    "losslessness); TLC-rendered strings for all 16 presence patterns x boundary values are parsed by the code; random groups, round "
                    "trips, ==/hash/==str (also after printing/hashing the object)/C.D.E over all pairs of a pool and malformed strings <=6 are judged by TLC; "
                    "the registry tables and the register catalogue ride along at DRIFT level.",
            "design_ref": "§6-C20", "note": "group values sampled beyond boundaries; malformed strings containing digit.digit are not bound by the statement",
            "technique": "TLA+ rendering spec, TLC injectivity model, TLC judging of recorded operations"},
})
