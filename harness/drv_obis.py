"""C20 — OBIS codes parse into their value groups and format back losslessly."""
from __future__ import annotations

import random

from .core import Check, stable_id

NONE = -1


def _g(t):
    return [NONE if x is None else int(x) for x in t]


def _tup(g):
    return tuple(None if x == NONE else x for x in g)


def reduced(g) -> str:
    s = ""
    if g[0] != NONE:
        s += f"{g[0]}-"
    if g[1] != NONE:
        s += f"{g[1]}:"
    s += f"{g[2]}.{g[3]}"
    if g[4] != NONE:
        s += f".{g[4]}"
    if g[5] != NONE:
        s += f"*{g[5]}"
    return s


def rec_parse(form, groups, text) -> dict:
    from han.obis import Obis, to_obis_tupple
    raised, got = "", [0] * 6
    try:
        got = _g(to_obis_tupple(text))
        # the other public ways into the same groups must agree: the class method, and its accessors
        o = Obis.from_string(text)
        for alt in (_g(o.as_tupple()), _g((o.a, o.b, o.c, o.d, o.e, o.f)), _g(Obis.from_string(text).as_tupple())):
            if alt != got:
                got = alt       # the deviating answer is the one that gets judged
                break
    except Exception as ex:  # noqa: BLE001
        raised = type(ex).__name__
    return {"id": stable_id("op", form, groups, text), "canary": "", "kind": "parse", "form": form, "groups": groups,
            "text": list(text.encode()), "raised": raised, "got": got}


def rec_malformed(text: str) -> dict:
    from han.obis import Obis
    raised = ""
    try:
        Obis.from_string(text)
    except Exception as ex:  # noqa: BLE001
        raised = type(ex).__name__
    return {"id": stable_id("om", text), "canary": "", "kind": "malformed", "text": list(text.encode("latin1", "replace")), "raised": raised}


def rec_roundtrip(groups) -> dict:
    from han.obis import Obis, to_obis_tupple
    raised, got, text = "", [0] * 6, ""
    try:
        text = Obis(_tup(groups)).to_reduced_str()
        got = _g(to_obis_tupple(text))
    except Exception as ex:  # noqa: BLE001
        raised = type(ex).__name__
    try:                                   # growth: str()/repr() (six-part when every group is non-zero, reduced otherwise) parse back too
        o = Obis(_tup(groups))
        str_got = _g(to_obis_tupple(str(o)))
        if repr(o) != str(o):
            str_got = [0] * 6
    except Exception:  # noqa: BLE001
        str_got = [0] * 6
    return {"id": stable_id("or", groups), "canary": "", "kind": "roundtrip", "groups": groups, "text": list(text.encode()), "raised": raised, "got": got,
            "str_got": str_got}


def rec_eq(g1, g2) -> dict:
    from han.obis import Obis
    a, b = Obis(_tup(g1)), Obis(_tup(g2))
    s2 = reduced(g2)
    str_ok = all(x == NONE or x > 0 for i, x in enumerate(g2) if i in (0, 1, 4, 5))   # the string denotes g2 exactly
    try:
        eq_str = bool(a == s2)
    except Exception:  # noqa: BLE001
        eq_str = False
    try:
        cde = a.to_group_cdr_str()
    except Exception:  # noqa: BLE001
        cde = "?"
    # equality asked in other states of the two objects: after one of them was hashed / printed / used in a container, and the other way round
    try:
        fcde = _g(a.filter_group_cde().as_tupple())
    except Exception:  # noqa: BLE001
        fcde = [0] * 6
    # equal groups reached by different routes (tuple, reduced string, six-part string): equal objects, equal hashes
    routes = []
    try:
        routes = [Obis(_tup(g2)), Obis.from_string(s2)] if str_ok else [Obis(_tup(g2))]
        if str_ok and all(x != NONE for x in g2):
            routes.append(Obis.from_string(".".join(str(x) for x in g2)))
    except Exception:  # noqa: BLE001
        routes = []
    route_eq = all((a == r) == (g1 == g2) and (r == a) == (g1 == g2) for r in routes)
    route_hash = all(hash(a) == hash(r) for r in routes) if g1 == g2 else True
    eqs = []
    for prep in (lambda c, d: hash(c), lambda c, d: hash(d), lambda c, d: (str(c), repr(d)), lambda c, d: (c.to_reduced_str(), d.as_tupple()),
                 lambda c, d: {c: 1}, lambda c, d: (c == d, hash(c))):
        c, d = Obis(_tup(g1)), Obis(_tup(g2))
        try:
            prep(c, d)
            eqs += [bool(c == d), bool(d == c), not bool(c != d), d in [c], d in {c}]
        except Exception:  # noqa: BLE001
            eqs.append(g1 != g2)          # an exception is never the right answer: recorded as the wrong one
    # "comparison with a string parses the string first", whatever the object did before: the spelling of g1 that leaves out its zero-valued
    # optional groups (what str()/to_reduced_str() print) denotes g3, which equals g1 only when nothing was left out
    g3 = [NONE if (i in (0, 1, 4, 5) and x == 0) else x for i, x in enumerate(g1)]
    text3, eqs3 = reduced(g3), []
    for prep in (lambda c: None, lambda c: str(c), lambda c: repr(c), lambda c: c.to_reduced_str(), lambda c: hash(c), lambda c: (c == text3, str(c)),
                 lambda c: f"{c}"):
        c = Obis(_tup(g1))
        try:
            prep(c)
            eqs3 += [bool(c == text3), not bool(c != text3)]
        except Exception:  # noqa: BLE001
            eqs3.append(g1 != g3)
    return {"id": stable_id("oe", g1, g2), "canary": "", "kind": "eq", "g3": g3, "text3": list(text3.encode()), "eqs3": eqs3, "g1": g1, "g2": g2, "eq": bool(a == b) if route_eq else (g1 != g2),
            "hash_eq": (hash(a) == hash(b)) and route_hash,
            "eq_str": eq_str, "str_ok": str_ok, "cde": list(cde.encode()), "eqs": eqs, "fcde": fcde}


def rec_registry() -> dict:
    """Growth (DESIGN §12): the OBIS registry tables of han/obis_map.py, projected onto (C.D.E, field name) pairs."""
    from han import obis_map
    from han.obis import Obis
    table, bad = [], []
    for code, name in sorted(obis_map.obis_name_map.items()):
        try:
            t = Obis.from_string(code).as_tupple()
            table.append({"cde": [int(t[2]), int(t[3]), NONE if t[4] is None else int(t[4])], "name": str(name)})
        except Exception as ex:  # noqa: BLE001
            bad.append(f"{code!r}: {type(ex).__name__}")
    inverse = sorted((code, name) for name, codes in obis_map.name_obis_map.items() for code in codes)
    return {"id": "registry", "canary": "", "kind": "registry", "table": table, "unparsable": len(bad),
            "inverse_ok": inverse == sorted(obis_map.obis_name_map.items()), "size": len(obis_map.obis_name_map)}


def rec_catalogue() -> dict:
    """Growth (DESIGN §12): the register catalogue OBIS_CODES of han/obis.py as (groups, category, unit, phase) rows."""
    from han.obis import OBIS_CODES
    rows = []
    for x in OBIS_CODES:
        g = _g(x.code.as_tupple())
        rows.append({"cde": [g[2], g[3], g[4]], "a": g[0], "b": g[1], "f": g[5], "category": x.category.name,
                     "unit": "" if x.unit is None else str(x.unit.value), "phase": NONE if x.phase is None else int(x.phase)})
    return {"id": "catalogue", "canary": "", "kind": "catalogue", "codes": rows}


def rand_groups(rng: random.Random):
    vals = [0, 1, 9, 10, 99, 100, 255, rng.randint(0, 255), rng.randint(0, 255)]
    opt = lambda: NONE if rng.random() < 0.4 else rng.choice(vals)  # noqa: E731
    return [opt(), opt(), rng.choice(vals), rng.choice(vals), opt(), opt()]


def run_c20(chk: Check) -> int:
    from . import tlc
    quick = chk.tier == "quick"
    rng = chk.rng
    recs = []
    chk.model("obis", "MC_Obis", workers=16, coverage=False, timeout=600)
    cases = tlc.export("obis", "Gen_Obis", rundir=chk.rundir)
    for c in cases:
        recs.append(rec_parse(c["form"], c["groups"], bytes(c["text"]).decode()))
    chk.cov["behaviours_replayed"] = len(cases)
    for _ in range(2000 if quick else 120000):
        g = rand_groups(rng)
        recs.append(rec_parse("reduced", g, reduced(g)))
        if all(x != NONE for x in g):
            recs.append(rec_parse("six", g, ".".join(str(x) for x in g)))
        recs.append(rec_roundtrip(g))
    # every C.D pair 0..99 x 0..99 in its shortest form and with the usual prefixes (codes a registry or a cache may know, and their neighbours)
    for c in range(100):
        for d in (range(100) if not quick else (0, 1, 2, 7, 8, 9, 10, 14, 96, 99)):
            for g in ([NONE, NONE, c, d, NONE, NONE], [NONE, NONE, c, d, 0, NONE], [1, 0, c, d, 0, NONE], [NONE, 0, c, d, NONE, 255]):
                recs.append(rec_parse("reduced", g, reduced(g)))
            if c % 10 == 1:
                recs.append(rec_eq([NONE, NONE, c, d, NONE, NONE], [NONE, NONE, c, d, 0, NONE]))
    # all presence patterns x boundary values for the round trip
    for pat in range(16):
        for v in (0, 1, 255):
            g = [v if pat & 1 else NONE, v if pat & 2 else NONE, 1, 8, v if pat & 4 else NONE, v if pat & 8 else NONE]
            recs.append(rec_roundtrip(g))
            recs.append(rec_parse("reduced", g, reduced(g)))
    pool = [rand_groups(rng) for _ in range(40 if quick else 200)]
    pool += [list(p) for p in pool[:10]]
    for a in pool:
        for b in pool:
            recs.append(rec_eq(a, b))
    for a in pool[:30]:                     # near misses: one optional group absent <-> 0, one group changed by one
        for i in (0, 1, 4, 5):
            b = list(a)
            b[i] = 0 if a[i] == NONE else (NONE if a[i] == 0 else a[i])
            recs.append(rec_eq(a, b))
            recs.append(rec_eq(b, a))
            c = list(a)
            c[i] = NONE if a[i] != NONE else 0
            recs.append(rec_eq(a, c))
        for i in (2, 3):
            b = list(a)
            b[i] = (a[i] + 1) % 256
            recs.append(rec_eq(a, b))
    alphabet = "0123456789.-:* abzXY\t"
    for _ in range(3000 if quick else 150000):
        s = "".join(rng.choice(alphabet) for _ in range(rng.randint(0, 6)))
        recs.append(rec_malformed(s))
    for s in ("", ".", "..", "1.", ".1", "1-", "1:2", "a.b", "1 .2", "1. 2", "12", "1-2:3", "*", "1*2", "255", "1..2", "1-.2", "-:.", "1.a", "a1.2"):
        recs.append(rec_malformed(s))
    # well-formed codes with every digit-dot-digit adjacency broken by one inserted character (before the dot, after it, or both)
    import re as _re
    wf = ["1.2.3.4.5.6", "1-0:1.8.0", "1.8.0", "1.8", "0-0:96.1.0*255", "255.255.255.255.255.255", "1-2:3.4.5*6", "10.20.30.40.50.60", "1.8.0*2", "0:1.8"]
    for w in wf:
        for sep in (" ", "\t", "+", "-", "_", "x", ",", "\n", ":", "*"):
            for side in ("before", "after", "both"):
                rp = {"before": sep + ".", "after": "." + sep, "both": sep + "." + sep}[side]
                recs.append(rec_malformed(w.replace(".", rp)))
        recs.append(rec_malformed(w.replace(".", "")))
        recs.append(rec_malformed(_re.sub(r"\d", "x", w)))
    recs.append(rec_registry())
    recs.append(rec_catalogue())
    # unique ids, canaries
    seen, uniq = set(), []
    for r in recs:
        if r["id"] not in seen:
            seen.add(r["id"])
            uniq.append(r)
    recs = uniq
    import copy
    for kind in ("parse", "roundtrip", "eq"):
        c = copy.deepcopy(next(r for r in recs if r["kind"] == kind and (kind != "roundtrip" or all(x == NONE or x > 0 for i, x in enumerate(r["groups"]) if i in (0, 1, 4, 5)))))
        if kind == "eq":
            c["eq"] = not c["eq"]
        else:
            c["got"] = list(c["got"])
            c["got"][2] = (c["got"][2] + 1) % 256
        c["canary"], c["id"] = kind, "canary-" + kind
        recs.append(c)
    c = copy.deepcopy(next(r for r in recs if r["kind"] == "registry"))
    c["table"][0]["name"], c["canary"], c["id"] = "meter_type", "registry", "canary-registry"
    recs.append(c)
    c = copy.deepcopy(next(r for r in recs if r["kind"] == "catalogue"))
    c["codes"][5]["phase"], c["canary"], c["id"] = 2, "catalogue", "canary-catalogue"
    recs.append(c)
    verdicts = chk.judge("obis", "Trace_Obis", recs, what="c20-ops")
    for r, v in zip(recs, verdicts):
        if r["canary"]:
            continue
        chk.count(r["id"])
        if v["ok"] and v.get("drift"):
            chk.drift(f"han.obis_map tables differ from spec/common/ObisMap.tla NameTable: {r['table'][:4]}... size {r['size']} (growth clause {v['drift']}, not part of C20)"
                      if r["kind"] == "registry" else
                      f"parsing str(Obis({r['groups']})) gives {r['str_got']} (growth clause {v['drift']}, not part of C20)" if r["kind"] == "roundtrip" else
                      f"han.obis.OBIS_CODES breaks the catalogue rules of spec/common/ObisMap.tla (unit/category/phase by code, no duplicates, "
                      f"covers the named measurements): {[x for x in r['codes']][:3]}... (growth clause {v['drift']}, not part of C20)"
                      if r["kind"] == "catalogue" else
                      f"Obis({r['g1']}).filter_group_cde() = {r['fcde']} (growth clause {v['drift']}, not part of C20)")
        if not v["ok"]:
            if v["clause"] == "plan":
                from .tlc import MachineryError
                raise MachineryError(f"OBIS generator outside the domain: {r}")
            what = {"parse": lambda: f"to_obis_tupple({bytes(r['text']).decode()!r}) -> {r['got']} raised {r['raised']!r}, expected {r['groups']}",
                    "malformed": lambda: f"Obis.from_string({bytes(r['text']).decode('latin1')!r}) raised {r['raised']!r} (no digit.digit: must be ValueError)",
                    "roundtrip": lambda: f"Obis({r['groups']}).to_reduced_str() = {bytes(r['text']).decode()!r} parses back to {r['got']} raised {r['raised']!r}",
                    "eq": lambda: f"Obis({r['g1']}) vs Obis({r['g2']}): == {r['eq']}, hash equal {r['hash_eq']}, == str {r['eq_str']}, cde {bytes(r['cde']).decode()!r}; Obis(g1) == {bytes(r['text3']).decode()!r} fresh/after printing/hashing: {r['eqs3']}"}[r["kind"]]()
            chk.violation(f"obis-{v['clause']}", f"TLC rejects: {what} (clause {v['clause']})", {"kind": "obis-op", "record": r, "verdict": v})
    chk.sample([{k: (bytes(v).decode("latin1") if k == "text" else v) for k, v in r.items() if k in ("kind", "form", "groups", "text", "got", "raised")}
                for r in (recs[0], next(x for x in recs if x["kind"] == "roundtrip"), next(x for x in recs if x["kind"] == "malformed"))])
    chk.assumptions += ["strings are rendered from value groups by spec/obis/Obis.tla (Reduced, SixPart); Python-generated strings are re-rendered and "
                        "compared by TLC before the verdict", "malformed strings that do contain digit.digit are not bound by the statement"]
    return chk.finish(rule="spec->code: 4x3x7x3x3x3 value-group combinations (all 16 presence patterns, boundary values) rendered by TLC in both syntaxes; "
                           "code->spec: random groups in both syntaxes, round trip over all presence patterns x {0,1,255} and random, ==/hash/==str/"
                           "C.D.E over all pairs of a pool, malformed strings <=6 over digits/separators/letters/space and well-formed codes with every digit.digit adjacency broken by an inserted character; every record judged by TLC; "
                           "non-trivial = distinct record")


def replay_c20(chk: Check, rp: dict) -> int:
    r = rp["record"]
    if r["kind"] == "parse":
        n = rec_parse(r["form"], r["groups"], bytes(r["text"]).decode())
    elif r["kind"] == "malformed":
        n = rec_malformed(bytes(r["text"]).decode("latin1"))
    elif r["kind"] == "roundtrip":
        n = rec_roundtrip(r["groups"])
    elif r["kind"] == "registry":
        n = rec_registry()
    elif r["kind"] == "catalogue":
        n = rec_catalogue()
    else:
        n = rec_eq(r["g1"], r["g2"])
    v = chk.judge("obis", "Trace_Obis", [n], what="replay")[0]
    if not v["ok"]:
        chk.violation(f"obis-{v['clause']}", f"still rejected: {v}", {"kind": "obis-op", "record": n, "verdict": v})
    return chk.finish(rule="replay of one record")
