"""C13 — protocols forward exactly the selected reader's messages (+ protocol part of C14)."""
from __future__ import annotations

import asyncio
import multiprocessing as mp
import random

from . import drv_hdlc as H
from . import drv_p1 as P
from .core import Check, chunkings, split, stable_id
from .tlc import MachineryError


def _classes():
    import han.meter_connection as mc
    return {"payload": mc.SmartMeterMessagePayloadProtocol, "message": mc.SmartMeterMessageProtocol}


class _Intern:
    def __init__(self):
        self.tab = {}

    def pid(self, key) -> int:
        if key not in self.tab:
            self.tab[key] = len(self.tab) + 1
        return self.tab[key]


_REC_CLASSES: dict = {}


def _observe(entry, msgs, intern, variant):
    for m in msgs:
        try:
            valid = bool(m.is_valid)
        except Exception:  # noqa: BLE001
            valid = False
        try:
            pl = m.payload
        except Exception:  # noqa: BLE001
            pl = None
        pk = "none" if pl is None else ("empty" if len(pl) == 0 else "data")
        pid = intern.pid(("m", id(m))) if variant == "message" else intern.pid(("p", bytes(pl or b"")))
        entry["msgs"].append({"valid": valid, "pk": pk, "pid": pid})
        entry.setdefault("_keep", []).append(m)   # keep objects alive so that id() stays unique


def _rec_class(base):
    """One recording subclass per library reader class: the protocol sees an object whose type tells HDLC from P1 (isinstance, type(), class
    attributes all as for the real reader), unlike the anonymous Proxy below, which hides the kind of reader from the protocol."""
    if base not in _REC_CLASSES:
        def read(self, data_chunk):
            idx, log, intern, variant = self._verif_rec
            entry = {"reader": idx, "raised": "", "msgs": []}
            log.append(entry)
            try:
                msgs = base.read(self, data_chunk)
            except Exception as ex:  # noqa: BLE001
                entry["raised"] = type(ex).__name__
                raise
            _observe(entry, msgs, intern, variant)
            return msgs
        _REC_CLASSES[base] = type("Rec" + base.__name__, (base,), {"read": read})
    return _REC_CLASSES[base]


def _make_proxy(inner, idx, log, intern, variant, typed=False):
    from han.common import MeterReaderBase
    if typed and type(inner).__module__.startswith("han.") and hasattr(inner, "__dict__"):
        inner.__class__ = _rec_class(type(inner))
        inner._verif_rec = (idx, log, intern, variant)
        return inner

    class Proxy(MeterReaderBase):
        """Recording wrapper around a real reader (public interface only)."""

        @property
        def is_in_hunt_mode(self):
            return inner.is_in_hunt_mode

        def read(self, data_chunk):
            entry = {"reader": idx, "raised": "", "msgs": []}
            log.append(entry)
            try:
                msgs = inner.read(data_chunk)
            except Exception as ex:  # noqa: BLE001
                entry["raised"] = type(ex).__name__
                raise
            for m in msgs:
                try:
                    valid = bool(m.is_valid)
                except Exception:  # noqa: BLE001
                    valid = False
                try:
                    pl = m.payload
                except Exception:  # noqa: BLE001
                    pl = None
                pk = "none" if pl is None else ("empty" if len(pl) == 0 else "data")
                pid = intern.pid(("m", id(m))) if variant == "message" else intern.pid(("p", bytes(pl or b"")))
                entry["msgs"].append({"valid": valid, "pk": pk, "pid": pid})
                entry.setdefault("_keep", []).append(m)   # keep objects alive so that id() stays unique
            return msgs

    return Proxy()


def record(variant: str, readers: list, chunks: list[bytes], plan_payloads=None, mode="free", origin="", names=None, container="list",
           shared=None, typed=False, plan_count=0) -> dict:
    """container: how the candidates are handed over ("list", "tuple", or "shared": a list object the caller keeps and
    hands to a second protocol instance later, as a connection factory that builds its candidate list once would)."""
    loop = asyncio.new_event_loop()
    asyncio.set_event_loop(loop)
    try:
        q = asyncio.Queue()
        intern = _Intern()
        log: list = []
        proxies = [_make_proxy(r, i + 1, log, intern, variant, typed) for i, r in enumerate(readers)]
        if shared is not None:
            if shared:                      # second session: same list object, new reader proxies put back by the caller
                del shared[:]
            shared.extend(proxies)
            cands = shared
        else:
            cands = tuple(proxies) if container == "tuple" else list(proxies)
        proto = _classes()[variant](q, cands)
        calls = []
        keep = []
        for ch in chunks:
            del log[:]
            raised = ""
            try:
                proto.data_received(ch)
            except Exception as ex:  # noqa: BLE001
                raised = type(ex).__name__
            delta = []
            while not q.empty():
                x = q.get_nowait()
                delta.append(intern.pid(("m", id(x))) if variant == "message" else intern.pid(("p", bytes(x))))
            fed = []
            for e in log:
                keep.append(e.pop("_keep", None))
                fed.append(dict(e))
            calls.append({"chunk_len": len(ch), "fed": fed, "delta": delta, "raised": raised})
        pp = [intern.pid(("p", p)) for p in (plan_payloads or [])]
        return {"id": stable_id("proto", variant, names, [c.hex() for c in chunks][:50], len(chunks)), "canary": "", "origin": origin,
                "variant": variant, "mode": mode, "candidates": names or [], "calls": calls, "plan_payloads": pp, "plan_count": plan_count,
                "plan_hex": [p.hex() for p in plan_payloads] if plan_payloads is not None and sum(map(len, plan_payloads)) < 6000 else [],
                "plan_hex_ok": plan_payloads is not None and sum(map(len, plan_payloads)) < 6000,
                "chunks": [c.hex() for c in chunks] if sum(map(len, chunks)) < 6000 else []}
    finally:
        loop.close()


def mk_readers(names):
    from han.dlde import ModeDReader
    from han.hdlc import HdlcFrameReader
    out = []
    for n in names:
        if n == "P1":
            out.append(ModeDReader())
        else:
            _, st, ab = n.split(":")
            out.append(HdlcFrameReader(use_octet_stuffing=st == "1", use_abort_sequence=ab == "1"))
    return out


CAND_LISTS = [["HDLC:0:0"], ["HDLC:1:1"], ["P1"], ["HDLC:0:0", "P1"], ["P1", "HDLC:0:0"], ["HDLC:1:0", "P1"], ["P1", "HDLC:0:1"],
              ["HDLC:1:1", "HDLC:0:0", "P1"]]


def _mk(args):
    from .core import set_logging
    set_logging(args)
    seed, n = args
    rng = random.Random(seed)
    out = []
    hist: list = []
    for k in range(n):
        if 0 < k <= 8 and out:     # what the earlier protocol instances of this process saw, for the replay of a history-dependent failure
            hist.append({"variant": out[-1]["variant"], "candidates": out[-1]["candidates"], "chunks": out[-1]["chunks"]})
        variant = "payload" if k % 2 == 0 else "message"
        style = rng.choice(["hdlc_clean", "hdlc_clean", "p1_clean", "p1_clean", "hdlc_dirty", "p1_dirty", "noise", "p1_sandwich", "hdlc_sandwich"])
        names = rng.choice(CAND_LISTS)
        if k < 8:       # a fixed history at the start of every worker: the other kind of meter was selected by the previous protocol instance of the process
            style = ["hdlc_clean", "p1_clean"][(k // 2) % 2]
            names = [["HDLC:0:0", "P1"], ["P1", "HDLC:0:0"]][(k // 4) % 2]
        plan_payloads, mode, plan_count = None, "free", 0
        hd = [x for x in names if x.startswith("HDLC")]
        if style.startswith("hdlc"):
            cfgname = hd[0] if hd else "HDLC:0:0"
            if not hd:
                names = names + [cfgname] if rng.random() < 0.5 else [cfgname] + names
            if len([x for x in names if x.startswith("HDLC")]) > 1:
                names = [x for x in names if not x.startswith("HDLC") or x == cfgname]
            cfg = (cfgname.split(":")[1] == "1", cfgname.split(":")[2] == "1")
            if style == "hdlc_clean":
                if k % 7 == 3:      # frames within the length limit whose wire form (escapes included, when stuffing) is far above it
                    plan = H.clean_plan(rng, cfg, 3, fresh_noise=False, sizes=[8, 1209, 1500, 2030], dense=True)
                else:
                    plan = H.clean_plan(rng, cfg, rng.randint(1, 6), fresh_noise=False)
                # keep the stream free of anything a P1 candidate could take for a readout ('/' ... LF ... '!')
                data = H.plan_wire(cfg, plan)
                mode = "clean"
                plan_count = sum(1 for it in plan if it["k"] == "frame")
                if variant == "payload":
                    plan_payloads = [bytes(it["info"]) for it in plan if it["k"] == "frame" and it["info"]]
            elif style == "hdlc_sandwich":      # selection happens on the first frames; then damaged ones reach message_received; then good ones
                from .drv_readers import almost_frames
                enc = (lambda x: H.stuff(x)) if cfg[0] else (lambda x: x)
                ok = [H.item_bytes(H.item_frame(rng, maxinfo=30, sizes=[3, 8, 20])) for _ in range(4)]
                data = b"".join(b"\x7e" + enc(f) for f in ok[:2]) + b"\x7e" + almost_frames(rng, cfg) + b"".join(b"\x7e" + enc(f) for f in ok[2:]) + b"\x7e"
            else:
                data = H.free_stream(rng, cfg)
                if rng.random() < 0.5:      # clean frames around a frame with an empty information field (payload b"")
                    ef = H.empty_info_frame(rng)
                    ok = H.item_bytes(H.item_frame(rng, maxinfo=30, sizes=[3, 8]))
                    enc = (lambda x: H.stuff(x)) if cfg[0] else (lambda x: x)
                    data = bytes([0x7E]) + enc(ok) + bytes([0x7E]) + enc(ef) + bytes([0x7E]) + enc(ok) + bytes([0x7E]) + data
        elif style.startswith("p1"):
            if "P1" not in names:
                names = names + ["P1"]
            if style == "p1_clean":
                plan = P.clean_plan(rng, rng.randint(1, 5), rng.random() < 0.3)
                if rng.random() < 0.5:      # a readout whose data block is empty: valid message, payload b"" (must NOT be enqueued)
                    it = P.item_readout(rng, nlines=0)
                    plan.insert(rng.randint(1 if plan[0]["k"] == "tail" else 0, len(plan)), it)
                data = P.plan_wire(plan)
                mode = "clean"
                plan_count = sum(1 for it in plan if it["k"] == "readout")
                if variant == "payload":
                    def pl(it):
                        r = P.item_bytes(it)
                        return r[r.find(b"\n") + 1:r.find(b"!")]
                    plan_payloads = [pl(it) for it in plan if it["k"] == "readout" and pl(it)]
            elif style == "p1_sandwich":        # good readouts, then readouts wrong in one boundary-valued octet (invalid, >= 0x80, ...), then good ones
                from .drv_readers import almost_readouts
                data = (P.plan_wire(P.clean_plan(rng, 2, False)) + almost_readouts(rng, seed + k) + P.plan_wire(P.clean_plan(rng, 2, False)))
            else:
                plan = P.resync_plan(rng, rng.choice(P.P1_NOISE[:9]), rng.randint(1, 3))
                data = P.plan_wire(plan)
        else:
            data = bytes(rng.choice(b"/!\n\r\x7e\x7d\xa0\x07\xff0Az") for _ in range(rng.randint(1, 200)))
        cuts = rng.choice(chunkings(rng, len(data), 4))
        if len(cuts) > 400:
            cuts = [len(data)]
        if mode == "clean" and style == "hdlc_clean" and "P1" in names:
            # a P1 candidate may legitimately win on an HDLC payload that looks like a readout: keep the clause only
            # when the stream contains no '/'-line a P1 reader could match (checked by running a P1 reader alone)
            from han.dlde import ModeDReader
            try:
                if any(r.is_valid for r in ModeDReader().read(data)):
                    mode, plan_payloads = "free", None
            except Exception:  # noqa: BLE001  (the recorded run will show the exception; C14 judges it)
                pass
        if mode == "clean" and style == "p1_clean" and hd:
            # likewise an HDLC candidate could win on bytes inside a readout (0x7E is '~'): only if it really does
            for nme in hd:
                rd = mk_readers([nme])[0]
                try:
                    if any(f.is_valid for f in rd.read(data)):
                        mode, plan_payloads = "free", None
                except Exception:  # noqa: BLE001
                    pass
        if variant == "message" and mode == "clean":
            mode = "clean_count"        # the message protocol enqueues objects: on a clean stream at least one per planned message
        how = rng.choice(["list", "list", "tuple", "two_sessions"])
        if k < 8:
            how = "list"
        typed = k % 3 != 0 or k < 8      # candidates that are instances of (a recording subclass of) the library's reader classes, not anonymous proxies
        if how == "two_sessions":
            # the user's candidate list object outlives the first protocol instance (reconnect): the second instance must
            # work from the same object exactly like the first
            shared: list = []
            record(variant, mk_readers(names), split(data, cuts), plan_payloads, mode, f"gen:{style}:session1", names, shared=shared, typed=typed, plan_count=plan_count)
            if len(shared) != len(names):
                shared[:] = []          # the first instance emptied the caller's list: the second one gets what is left (nothing)
                t = record(variant, [], split(data, cuts), plan_payloads, mode, f"gen:{style}:session2-after-shared-list-was-emptied", names, shared=None,
                           container="list")
            else:
                t = record(variant, mk_readers(names), split(data, cuts), plan_payloads, mode, f"gen:{style}:session2", names, shared=shared, typed=typed, plan_count=plan_count)
            out.append(t)
        else:
            out.append(record(variant, mk_readers(names), split(data, cuts), plan_payloads, mode, f"gen:{style}:{how}{':typed' if typed else ''}", names, container=how, typed=typed, plan_count=plan_count))
        if 0 < k < 8 and all(h["chunks"] for h in hist):
            out[-1]["history"] = list(hist)
    return out


class _Stub:
    """Scripted reader for the spec -> code replay of Gen_Proto behaviours."""

    def __init__(self, script, variant):
        self.script, self.k, self.variant = script, 0, variant
        self.fed = 0

    @property
    def is_in_hunt_mode(self):
        return True

    def read(self, data):
        from han.common import MeterMessageBase, MeterMessageType

        class M(MeterMessageBase):
            def __init__(s, valid, pk, pid):
                s._v, s._pk, s.pid = valid, pk, pid

            @property
            def message_type(s):
                return MeterMessageType.UNKNOWN

            @property
            def is_valid(s):
                return s._v

            @property
            def as_bytes(s):
                return b"x"

            @property
            def payload(s):
                return None if s._pk == "none" else (b"" if s._pk == "empty" else b"P%d" % s.pid)
        msgs = [M(m["valid"], m["pk"], m["pid"]) for m in self.script[self.k]]
        self.k += 1
        self.fed += 1
        return msgs


def replay_gen(chk: Check):
    from . import tlc
    from han.common import MeterReaderBase
    MeterReaderBase.register(_Stub)
    behs = tlc.export("proto", "Gen_Proto", rundir=chk.rundir, timeout=600)
    loop = asyncio.new_event_loop()
    asyncio.set_event_loop(loop)
    n = 0
    try:
        for b in behs:
            variant = b["variant"]
            stubs = [_Stub([c["outs"][r] for c in b["calls"]], variant) for r in range(2)]
            q = asyncio.Queue()
            proto = _classes()[variant](q, list(stubs))
            for ci, c in enumerate(b["calls"]):
                before = [s.fed for s in stubs]
                err = ""
                try:
                    proto.data_received(b"x")
                except Exception as ex:  # noqa: BLE001
                    err = type(ex).__name__
                got = []
                while not q.empty():
                    x = q.get_nowait()
                    if variant == "message":
                        got.append(getattr(x, "pid", -1))
                    else:
                        got.append(int(x[1:]) if isinstance(x, bytes) and x[:1] == b"P" and x[1:].isdigit() else -1)
                fed = [r + 1 for r in range(2) if stubs[r].fed > before[r]]
                n += 1
                if err or got != c["delta"] or sorted(fed) != sorted(c["fed"]):
                    chk.violation(f"proto-gen-{variant}", f"spec->code: {variant} protocol, call {ci + 1} with reader outputs {c['outs']}: queue got {got} "
                                  f"(spec {c['delta']}), readers fed {fed} (spec {c['fed']}), raised {err!r}", {"kind": "proto-gen", "behaviour": b})
                    break
                # the stubs must stay aligned with the script even when a reader was not fed
                for s in stubs:
                    s.k = ci + 1
            chk.count(None)
    finally:
        loop.close()
    chk.count("gen-proto", 0)
    chk.cov["behaviours_replayed"] = chk.cov.get("behaviours_replayed", 0) + len(behs)
    chk.cov["traces_validated_against_impl"] += len(behs)
    chk.sample({"gen_behaviour": behs[len(behs) // 2]})


def canaries(traces, rng):
    import copy
    out = []
    pool = [t for t in traces if any(c["delta"] for c in t["calls"])]
    rng.shuffle(pool)
    for kind, t in zip(["dup_queue_entry", "drop_queue_entry", "foreign_entry"], pool):
        c = copy.deepcopy(t)
        for cl in c["calls"]:
            if cl["delta"]:
                if kind == "dup_queue_entry":
                    cl["delta"].append(cl["delta"][-1])
                elif kind == "drop_queue_entry":
                    cl["delta"].pop()
                else:
                    cl["delta"].insert(0, 9999)
                break
        c["canary"], c["id"] = kind, f"canary-{kind}-{t['id']}"
        out.append(c)
    return out


def harvest(chk, traces, verdicts, prefixes):
    for t, v in zip(traces, verdicts):
        if t["canary"]:
            continue
        chk.count(t["id"] if any(c["delta"] for c in t["calls"]) else None)
        for fl in v["fails"]:
            if fl["c"].startswith(prefixes):
                chk.violation(f"proto-{fl['c']}-{t['variant']}", f"TLC rejects protocol trace {t['id']} ({t['variant']}, candidates {t['candidates']}, "
                              f"{t['origin']}): clause {fl['c']} at call {fl['at']}", {"kind": "proto-trace", "trace": t, "verdict": v})


def run_c13(chk: Check) -> int:
    quick = chk.tier == "quick"
    chk.model("proto", "MC_MeterProtocol", workers=8, coverage=True, timeout=600)
    replay_gen(chk)
    with mp.Pool(16) as pool:
        res = pool.map(_mk, [(chk.seed * 1000 + 13 + i, 40 if quick else 3000) for i in range(16)])
    traces = [t for r in res for t in r]
    traces += canaries(traces, chk.rng)
    verdicts = chk.judge("proto", "Trace_Proto", traces, what="c13-traces")
    harvest(chk, traces, verdicts, ("C13",))
    life_traces(chk)
    from . import drv_pipeline
    drv_pipeline.pipeline_part(chk)
    t = next(t for t in traces if t["mode"] == "clean" and len(t["candidates"]) > 1)
    chk.sample({"variant": t["variant"], "candidates": t["candidates"], "origin": t["origin"], "calls": t["calls"][:3], "plan_payloads": t["plan_payloads"][:4]})
    chk.assumptions += ["readers are wrapped in recording proxies (public MeterReaderBase interface); payload identity = payload content, "
                        "message identity = object identity", "the end-to-end clause is judged on clean streams on which no other candidate "
                        "produces a valid message of its own (checked by running that candidate alone)"]
    return chk.finish(rule="model: 2 readers x <=2 messages per call (valid x payload none/empty/data) x 3 calls x both variants, Impl => Contract; "
                           "spec->code: every first call of that space followed by 5 representative second calls replayed with scripted readers; "
                           "code->spec: real readers in 8 candidate lists, clean HDLC/P1 plans, corrupted and mixed streams, random chunkings, "
                           "both protocol classes, each data_received() call judged by TLC; non-trivial = trace with at least one queue entry; "
                           "growth (DRIFT level): protocol lifecycle ProtoLife (connection_made/data/eof/connection_lost, done future, transport.close()) - "
                           "all callback orders up to length 4/5 over 9 callback variants judged by Trace_ProtoLife; receive pipeline (tcp/serial connection factory "
                           "with default readers -> message/payload protocol -> queue -> one AutoDecoder per connection) on clean single-meter streams, "
                           "projected onto Trace_Hdlc/Trace_P1 (clean mode), Trace_Pipeline, Trace_Cosem and Trace_P1Dec")


# ----------------------------------------------------------------------------- lifecycle (growth, DESIGN §12)
def life_record(variant: str, ops: list[dict], tid: str) -> dict:
    """Drive one protocol object through callbacks; observe done / transport reference / close() calls after each."""
    loop = asyncio.new_event_loop()
    asyncio.set_event_loop(loop)
    try:
        from han.hdlc import HdlcFrameReader
        from han.dlde import ModeDReader

        class T(asyncio.BaseTransport):
            def __init__(self, style):
                super().__init__()
                self.closes, self.raises = 0, False
                if style == "serial":
                    self.serial = "fake-serial"
                self.style = style

            def get_extra_info(self, name, default=None):
                return ("127.0.0.1", 1234) if (name == "peername" and self.style == "peer") else default

            def close(self):
                self.closes += 1
                if self.raises:
                    raise OSError("close failed")

        p = _classes()[variant](asyncio.Queue(), [HdlcFrameReader(False), ModeDReader()])
        transports: list = []
        out = []
        for o in ops:
            ret = ""
            try:
                if o["op"] == "made":
                    transports.append(T(o.get("style", "plain")))
                    r = p.connection_made(transports[-1])
                elif o["op"] == "data":
                    r = p.data_received(bytes.fromhex(o.get("hex", "")))
                elif o["op"] == "eof":
                    r = p.eof_received()
                else:
                    for t in transports:
                        t.raises = bool(o["closeRaises"])
                    r = p.connection_lost(OSError("lost") if o.get("exc") else None)
                ret = "" if r is None else ("false" if r is False else repr(r)[:40])
            except Exception as ex:  # noqa: BLE001 - what the caller (asyncio) would see
                ret = type(ex).__name__
            fut = p.done
            done = bool(fut.done())
            if done and (fut.cancelled() or fut.exception() is not None):
                ret = ret or "done-not-a-result"
            out.append({"op": o["op"], "closeRaises": bool(o.get("closeRaises", False)), "ret": ret, "done": done,
                        "tref": getattr(p, "_transport", None) is not None, "closes": sum(t.closes for t in transports)})
        return {"id": tid, "canary": "", "variant": variant, "ops": out, "script": ops}
    finally:
        asyncio.set_event_loop(None)
        loop.close()


def life_traces(chk: Check) -> None:
    """Every asyncio-ordered history + every callback order of length <= 4 (quick) / 5, both classes; judged by TLC.
    A rejection is DRIFT, not a violation: the lifecycle is not one of the listed properties (DESIGN §12)."""
    import itertools
    chk.model("proto", "MC_ProtoLife", workers=4, coverage=True, timeout=300)
    alphabet = [{"op": "made"}, {"op": "made", "style": "serial"}, {"op": "made", "style": "peer"},
                {"op": "data", "hex": "7ea00801020110378d7e"}, {"op": "data", "hex": "00ff"}, {"op": "eof"},
                {"op": "lost", "closeRaises": False}, {"op": "lost", "closeRaises": False, "exc": True},
                {"op": "lost", "closeRaises": True, "exc": True}]
    depth = 4 if chk.tier == "quick" else 5
    scripts = [list(c) for n in range(1, depth + 1) for c in itertools.product(alphabet, repeat=n)]
    if chk.tier == "quick":
        scripts = [s for i, s in enumerate(scripts) if len(s) < 4 or (i + chk.seed) % 4 == 0]
    traces = []
    for i, sc in enumerate(scripts):
        traces.append(life_record(["payload", "message"][i % 2], sc, f"life-{i}"))
    import copy
    for kind, t in zip(["done_early", "close_missing"], [t for t in traces if any(o["op"] == "lost" for o in t["ops"]) and t["ops"][0]["op"] == "made"][:2]):
        c = copy.deepcopy(t)
        if kind == "done_early":
            c["ops"][0]["done"] = True
        else:
            for o in c["ops"]:
                if o["op"] == "lost":
                    o["closes"] = 0
                    break
        c["canary"], c["id"] = kind, f"canary-{kind}-{t['id']}"
        traces.append(c)
    verdicts = chk.judge("proto", "Trace_ProtoLife", traces, what="lifecycle-traces", shards=8)
    for t, v in zip(traces, verdicts):
        if t["canary"]:
            continue
        chk.count(t["id"] if any(o["done"] for o in t["ops"]) else None)
        for fl in v["fails"]:
            chk.drift(f"protocol lifecycle: clause {fl['c']} at callback {fl['at']} of {[o['op'] for o in t['script']]} ({t['variant']})")


def replay_any(chk: Check, rp: dict, prefixes) -> int:
    if rp.get("kind") == "proto-gen":
        replay_gen(chk)
        return chk.finish(rule="replay of Gen_Proto behaviours")
    t = rp["trace"]
    if not t.get("chunks"):
        raise MachineryError("replay file carries no chunks (stream too long); re-run the check with the recorded seed")
    chunks = [bytes.fromhex(c) for c in t["chunks"]]
    typed = ":typed" in t.get("origin", "")
    for h in t.get("history") or []:       # the protocol instances that lived in the same process before this one
        record(h["variant"], mk_readers(h["candidates"]), [bytes.fromhex(c) for c in h["chunks"]], None, "free", "replay-history", h["candidates"], typed=True)
    plan, mode = None, "free"
    if t.get("mode") == "clean" and t.get("plan_hex_ok"):
        plan, mode = [bytes.fromhex(x) for x in t["plan_hex"]], "clean"
    elif t.get("mode") == "clean_count":
        mode = "clean_count"
    nt = record(t["variant"], mk_readers(t["candidates"]), chunks, plan, mode, "replay", t["candidates"], typed=typed, plan_count=t.get("plan_count", 0))
    v = chk.judge("proto", "Trace_Proto", [nt], what="replay")
    harvest(chk, [nt], v, prefixes)
    return chk.finish(rule="replay of one protocol trace")


def replay_c13(chk, rp):
    return replay_any(chk, rp, ("C13",))


# ----------------------------------------------------------------------------- protocol part of C14
def _mk14(args):
    from .core import set_logging
    set_logging(args)
    from .drv_readers import KINDS14, _noise14
    seed, n = args
    rng = random.Random(seed)
    out = []
    for k in range(n):
        variant = "payload" if k % 2 == 0 else "message"
        names = [["HDLC:0:0", "P1"], ["P1", "HDLC:0:0"], ["HDLC:1:1", "P1"], ["P1", "HDLC:1:0"]][k % 4]
        data = b"".join(_noise14(rng, rng.choice(KINDS14)) for _ in range(rng.randint(1, 4)))
        if rng.random() < 0.5:
            data += P.item_bytes(P.item_readout(rng, nlines=2)) * 2
        if k % 3 == 0:      # a reader gets selected first, so that what follows reaches message_received(): good, almost good, noise, good
            from .drv_readers import almost_frames, almost_readouts
            if k % 12 in (0, 9):        # k % 12: 0 P1/payload, 3 HDLC/message, 6 HDLC/payload, 9 P1/message
                good = P.item_bytes(P.item_readout(rng, nlines=2))
                data = good + almost_readouts(rng, seed + k) + data + good
            else:
                cfg = next((n.split(":")[1] == "1", n.split(":")[2] == "1") for n in names if n.startswith("HDLC"))
                f = H.item_bytes(H.item_frame(rng, maxinfo=20, sizes=[3, 8]))
                f0 = H.item_bytes(H.item_frame(rng, sizes=[0]))          # valid frame without information field: payload is None
                enc = (lambda x: H.stuff(x)) if cfg[0] else (lambda x: x)
                good = b"\x7e" + enc(f) + b"\x7e" + enc(f0) + b"\x7e"
                data = good + almost_frames(rng, cfg) + data + good
        cuts = rng.choice(chunkings(rng, len(data), 4))
        out.append(record(variant, mk_readers(names), split(data, cuts), None, "free", "gen:c14", names, typed=k % 2 == 1))
    return out


def c14_part(chk: Check):
    quick = chk.tier == "quick"
    with mp.Pool(16) as pool:
        res = pool.map(_mk14, [(chk.seed * 1000 + 140 + i, 30 if quick else 400) for i in range(16)])
    traces = [t for r in res for t in r]
    import copy
    c = copy.deepcopy(traces[0])
    c["calls"][0]["raised"] = "UnicodeDecodeError"
    c["canary"], c["id"] = "raised", "canary-raised"
    traces.append(c)
    verdicts = chk.judge("proto", "Trace_Proto", traces, what="c14-proto")
    harvest(chk, traces, verdicts, ("C14",))
