"""C12 / C15 — AutoDecoder across histories; termination and no escaping exception."""
from __future__ import annotations

import itertools
import multiprocessing as mp
import random
import resource
import signal
import sys

from .core import Check, stable_id

OWN = {("aidon", "frame"): 1, ("kaifa", "frame"): 2, ("kamstrup", "frame"): 3, ("p1", "body"): 4,
       ("aidon", "body"): 5, ("kaifa", "body"): 6, ("kamstrup", "body"): 7}


def genuine_pool() -> list[tuple[str, bytes, int]]:
    """Every captured message of the repository's tests, frame and bare-body form, tagged with its own decoder."""
    import importlib
    out = []
    for meter in ("aidon", "kaifa", "kamstrup"):
        mod = importlib.import_module(f"tests.test_{meter}")
        for name in sorted(dir(mod)):
            v = getattr(mod, name)
            if isinstance(v, bytes) and len(v) > 8 and not name.startswith("_"):
                form = "frame" if v[:3] == b"\xe6\xe7\x00" else "body"
                out.append((f"{meter}:{name}", v, OWN[(meter, form)]))
            elif isinstance(v, str) and name.upper().startswith("NOTIFICATION_BODY"):
                try:
                    b = bytes.fromhex(v.replace(" ", ""))
                except ValueError:
                    continue
                out.append((f"{meter}:{name}", b, OWN[(meter, "body")]))
    import tests.test_dlde as td
    from han.dlde import DataReadout
    for name in sorted(dir(td)):
        v = getattr(td, name)
        if name.startswith("EXAMPLE_DATA") and isinstance(v, bytes):
            try:
                out.append((f"p1:{name}", DataReadout(v).payload, 4))
            except Exception:  # noqa: BLE001
                pass
    return out


class _Timeout(Exception):
    pass


def _alarm(signum, frame):
    raise _Timeout()


_HANGS = [0]


def guarded(fn, *a, limit=4.0):
    """Run fn under a wall-clock alarm and a profile-event counter. -> (outcome, value, steps).

    After a few hangs in this process the alarm is shortened (a tree that loops for ever would otherwise
    make the check itself take hours; the verdict does not change)."""
    steps = [0]
    if _HANGS[0] >= 3:
        limit = min(limit, 0.4)

    def prof(frame, event, arg):
        steps[0] += 1
    # CPU time, not wall-clock time: a loaded machine must not turn a slow call into a "hang"
    signal.signal(signal.SIGVTALRM, _alarm)
    signal.setitimer(signal.ITIMER_VIRTUAL, limit)
    sys.setprofile(prof)
    try:
        v = fn(*a)
        out = ("ok", v)
    except _Timeout:
        out = ("hang", None)
        _HANGS[0] += 1
    except MemoryError:
        out = ("raised", "MemoryError")
    except Exception as ex:  # noqa: BLE001
        out = ("raised", type(ex).__name__)
    finally:
        sys.setprofile(None)
        signal.setitimer(signal.ITIMER_VIRTUAL, 0)
    return out[0], out[1], steps[0]


def table():
    from han.autodecoder import AutoDecoder
    return AutoDecoder.payload_decoder_functions


def individual(payload: bytes):
    """Acceptance vector: which decoder returns a dictionary for this payload when called on its own."""
    acc, res = [], []
    for _, fn in table():
        o, v, _ = guarded(fn, payload, limit=4.0)
        ok = o == "ok" and isinstance(v, dict)
        acc.append(ok)
        res.append(v if ok else None)
    return acc, res


def prev_index(dec) -> int:
    try:
        name = dec.previous_success_decoder
    except Exception:  # noqa: BLE001
        return -1
    if name is None:
        return 0
    names = [n for n, _ in table()]
    return names.index(name) + 1 if name in names else -1


_THREAD = []


def _on_worker_thread(fn, *a):
    """The same strictly sequential call, made on another thread (an executor thread of the application): one call at a time, joined."""
    from concurrent.futures import ThreadPoolExecutor
    if not _THREAD:
        _THREAD.append(ThreadPoolExecutor(max_workers=1))
    return _THREAD[0].submit(fn, *a).result()


def observe(dec, payload: bytes, own: int, message=None, twin=None, msgdesc: str = "", how: int = 0) -> dict:
    """how: 0 plain; 1 the call is made on a worker thread; 2 the payload is handed over as a bytearray (skipped if refused with TypeError)."""
    acc, res = individual(payload)
    pb = prev_index(dec)
    if message is not None:
        o, v, steps = guarded(dec.decode_message, message)
    elif how == 1:
        try:
            v = _on_worker_thread(dec.decode_message_payload, payload)
            o, steps = "ok", 0
        except Exception as ex:  # noqa: BLE001
            o, v, steps = "raised", type(ex).__name__, 0
    elif how == 2:
        o, v, steps = guarded(dec.decode_message_payload, bytearray(payload))
        if o == "raised" and v == "TypeError":          # the signature says bytes: a refusal is not an answer
            o, v, steps = guarded(dec.decode_message_payload, payload)
    else:
        o, v, steps = guarded(dec.decode_message_payload, payload)
    pair = ""
    readout = msgdesc.startswith("readout")
    if twin is not None and message is not None and readout:
        guarded(twin.decode_message_payload, payload)       # keep the twin's history in step; results differ by the identification fields
    elif twin is not None and message is not None:
        o2, v2, _ = guarded(twin.decode_message_payload, payload)
        pair = "equal" if (o2 == o and v2 == v and prev_index(twin) == prev_index(dec)) else "differ"
    outcome = "hang" if o == "hang" else ("raised" if o == "raised" else ("dict" if isinstance(v, dict) else ("none" if v is None else "raised")))
    detail = v if o == "raised" else ("" if outcome != "raised" else f"returned {type(v).__name__}")
    same = [bool(outcome == "dict" and r is not None and r == v) for r in res]
    return {"acc": acc, "same": same, "outcome": outcome, "detail": detail or "", "prev_before": pb, "prev_after": prev_index(dec),
            "own": own, "pair": pair, "steps": min(int(steps), 2 ** 31 - 1), "n": len(payload), "payload": payload.hex(),
            "form": "readout" if readout else ("message" if message is not None else "payload"), "msg": msgdesc or ("dlms" if message is not None else "")}


def _limit_memory():
    try:
        resource.setrlimit(resource.RLIMIT_AS, (3 << 30, 3 << 30))
    except Exception:  # noqa: BLE001
        pass


def _job_histories(args):
    from .core import set_logging
    set_logging(args)
    _limit_memory()
    from han.autodecoder import AutoDecoder
    from han.common import DlmsMessage
    hists = args
    out = []
    by, by_pool, nby = AutoDecoder(), [g[1] for g in genuine_pool()], 0     # another decoder, used between the calls: instances are independent
    for h in hists:
        dec, twin = AutoDecoder(), AutoDecoder()
        calls = []
        for (name, payload, own, as_message) in h:
            guarded(by.decode_message_payload, by_pool[nby % len(by_pool)])
            nby += 1
            if as_message:
                desc = as_message if isinstance(as_message, str) else "dlms"
                calls.append(observe(dec, payload, own, message=message_from(desc, payload), twin=twin, msgdesc=desc))
            else:
                calls.append(observe(dec, payload, own, how=(nby % 7 == 3) + 2 * (nby % 7 == 5)))
                guarded(twin.decode_message_payload, payload)
        out.append({"id": stable_id("auto", [(n, m) for n, _, _, m in h]), "canary": "", "names": [n for n, _, _, _ in h], "calls": calls})
    return out


def boundary_genuine(rng: random.Random) -> list[tuple[str, bytes, int]]:
    """Genuine messages (the captured lists re-encoded with other values): registers at the top of their range,
    clocks whose twelve octets are all below 0x80, strings with blanks at the ends."""
    import copy
    from . import drv_cosem as C
    out = []
    for meter in ("aidon", "kaifa", "kamstrup"):
        for name, m, _b in C.captured(meter):
            if name.endswith(("_1", "NO_LIST_1")) and meter != "kaifa":
                continue
            for variant in ("max", "clock7", "blank"):
                x = copy.deepcopy(m)
                for e in x["elems"]:
                    if variant == "max" and e["t"] == "u32":
                        e["hi"], e["lo"] = 0xFFFF, 0xFFFF
                    elif variant == "max" and e["t"] in ("u16", "i16"):
                        e["lo"] = 0xFFFF
                    elif variant == "clock7" and e["t"] == "dt":
                        e["dt"] = {"y": 2100, "mo": 12, "d": 24, "dow": 1, "h": 23, "mi": 59, "s": 59, "hs": 50, "dev": 60, "st": 0}
                    elif variant == "blank" and e["t"] in ("vstr", "ostr") and not (meter == "kamstrup" and e["obis"] == [1, 1, 96, 1, 1, 255]):
                        e["s"] = e["s"][:-1] + [32]
                if variant == "clock7" and x["apdu"]["kind"] != "null":
                    x["apdu"]["dt"] = {"y": 2100, "mo": 12, "d": 24, "dow": 1, "h": 23, "mi": 59, "s": 59, "hs": 50, "dev": 60, "st": 0}
                own = OWN[(meter, x["form"])]
                try:
                    out.append((f"gen:{variant}:{name}", C.encode(x), own))
                except Exception:  # noqa: BLE001
                    pass
    return out


def junk_pool(rng: random.Random, gen) -> list[tuple[str, bytes, int]]:
    out = [("junk:empty1", b"\x00", 0), ("junk:ascii", b"hello world", 0), ("junk:p1ish", b"1-0:1.8.0(5", 0), ("junk:p1ish2", b"1.0(5)xyz", 0),
           ("junk:p1ok", b"1-0:1.8.0(00001.5*kWh)\r\n", 4), ("junk:inf", b"1.8.0(inf*kW)", 0), ("junk:paren", b"a*(", 0),
           # a P1 block the P1 decoder accepts with an EMPTY dictionary (only multi-valued data sets)
           ("p1:multivalued_only", b"1-0:99.97.0(2)(0-0:96.7.19)(170520130938S)(0000005627*s)\r\n", 4),
           ("p1:multivalued_only2", b"0-0:96.7.19(1)(2)\r\n1-0:99.97.0(0)(0-0:96.7.19)\r\n", 4)]
    for i in range(6):
        out.append((f"junk:rand{i}", bytes(rng.randrange(256) for _ in range(rng.choice([1, 5, 20, 80]))), 0))
    for name, b, _ in gen[::3]:
        out.append((f"trunc:{name}", b[:rng.randint(1, len(b) - 1)], 0))
        m = bytearray(b)
        m[rng.randrange(len(m))] ^= 1 << rng.randrange(8)
        out.append((f"mut:{name}", bytes(m), 0))
    return out


def mutations(rng: random.Random, name: str, b: bytes, quick: bool):
    """C15 mutation classes of one genuine message."""
    out = []
    n = len(b)
    cuts = range(1, n) if (not quick or n < 60) else sorted(rng.sample(range(1, n), 40))
    for k in cuts:
        out.append((f"trunc{k}:{name}", b[:k]))
    tags = [0, 1, 2, 6, 9, 10, 15, 16, 18, 22, 255]
    pos = range(n) if (not quick) else sorted(rng.sample(range(n), min(n, 60)))
    for p in pos:
        for v in ((b[p] ^ 1), (b[p] + 1) & 255, 0xFF, 0, rng.choice(tags)):
            if v != b[p]:
                m = bytearray(b)
                m[p] = v
                out.append((f"set{p}={v}:{name}", bytes(m)))
    for _ in range(20 if quick else 200):
        m = bytearray(b)
        for _k in range(rng.randint(2, 5)):
            m[rng.randrange(n)] = rng.choice(tags + [rng.randrange(256)])
        out.append((f"multi:{name}", bytes(m)))
    for _ in range(10 if quick else 60):
        p = rng.randrange(n)
        out.append((f"del{p}:{name}", b[:p] + b[p + rng.randint(1, 3):]))
        out.append((f"dt_ff{p}:{name}", b[:p] + b"\xff" * min(12, n - p) + b[p + 12:]))
    return out


def _job_c15(args):
    from .core import set_logging
    set_logging(args)
    _limit_memory()
    from han.autodecoder import AutoDecoder
    items, primers = args
    out = []
    for name, payload in items:
        calls = []
        for pi, (pname, prime) in enumerate(primers):
            dec = AutoDecoder()
            if prime is not None:
                guarded(dec.decode_message_payload, prime)
            calls.append(observe(dec, payload, 0))
            if calls[-1]["outcome"] == "hang":
                break
        # decode_message with every kind of message object the library has (C15 names both entry points)
        if calls and calls[-1]["outcome"] != "hang":
            for desc, msg in message_objects(payload):
                dec = AutoDecoder()
                calls.append(observe(dec, payload, 0, message=msg, msgdesc=desc))
        out.append({"id": stable_id("c15", name, payload.hex()), "canary": "", "names": [name], "calls": calls})
    return out


def message_objects(payload: bytes) -> list:
    """DlmsMessage, HdlcFrame (intact and with a damaged FCS) and DataReadout (good and damaged identification lines) around a payload."""
    from han.common import DlmsMessage
    from han.dlde import DataReadout
    from han.hdlc import HdlcFrameReader
    from .drv_hdlc import mkframe
    out = []
    try:
        out.append(("dlms", DlmsMessage(payload)))
    except Exception:  # noqa: BLE001
        pass
    if 0 < len(payload) <= 2030:
        fr = mkframe(info=payload)
        for desc, wire in (("hdlc", fr), ("hdlc_badfcs", fr[:-1] + bytes([fr[-1] ^ 1]))):
            try:
                out += [(desc, f) for f in HdlcFrameReader(False, False).read(b"\x7e" + wire + b"\x7e")[:1]]
            except Exception:  # noqa: BLE001
                pass
    if payload and all(b < 128 for b in payload) and b"!" not in payload and len(payload) < 4000:
        for ident in IDENTS:
            try:
                out.append(("readout:" + ident.hex(), DataReadout(ident + b"\r\n" + payload + b"!\r\n")))
            except Exception:  # noqa: BLE001  (constructor's own refusal)
                pass
    return out


IDENTS = (b"/ABC5id", b"/abc5id", b"/ABC5" + b"x" * 17, b"/ABCxid", b"/", b"/ABC5\xffid", b"/ABC5\\2\\3id")


def message_from(desc: str, payload: bytes):
    for d, m in message_objects(payload):
        if d == desc:
            return m
    from han.common import DlmsMessage
    return DlmsMessage(payload)


def harvest(chk: Check, traces, verdicts, prefixes):
    for t, v in zip(traces, verdicts):
        if t["canary"]:
            continue
        chk.count(t["id"])
        for fl in v["fails"]:
            if fl["c"].startswith(prefixes):
                c = t["calls"][fl["at"] - 1]
                chk.violation(f"auto-{fl['c']}", f"TLC rejects AutoDecoder history {t['names'][:4]} at call {fl['at']}: clause {fl['c']} "
                              f"(outcome {c['outcome']} {c['detail']}, acc {c['acc']}, prev {c['prev_before']}->{c['prev_after']}, own {c['own']}, "
                              f"payload {c['payload'][:80]})", {"kind": "auto-trace", "trace": t, "verdict": v})


def canaries(traces, rng):
    import copy
    out = []
    pool = [t for t in traces if any(c["outcome"] == "dict" for c in t["calls"])]
    for kind in ("prev_wrong", "none_but_accepted", "raised"):
        if not pool:
            break
        c = copy.deepcopy(rng.choice(pool))
        k = next(i for i, x in enumerate(c["calls"]) if x["outcome"] == "dict")
        if kind == "prev_wrong":
            c["calls"][k]["prev_after"] = (c["calls"][k]["prev_after"] % 7) + 1
            if c["calls"][k]["same"][c["calls"][k]["prev_after"] - 1]:
                c["calls"][k]["same"][c["calls"][k]["prev_after"] - 1] = False
        elif kind == "none_but_accepted":
            c["calls"][k]["outcome"] = "none"
        else:
            c["calls"][k]["outcome"] = "raised"
        c["canary"], c["id"] = kind, f"canary-{kind}-{c['id']}"
        out.append(c)
    return out


def stub_walk(chk: Check):
    """spec -> code: every transition (prev x acceptance vector) of the AutoDecoder model replayed with stub decoders."""
    from han.autodecoder import AutoDecoder
    from . import tlc
    exp = tlc.export("auto", "Gen_AutoDecoder", rundir=chk.rundir)
    saved = AutoDecoder.payload_decoder_functions
    names = [n for n, _ in saved]
    n = 0
    try:
        for tr in exp:
            acc = set(tr["acc"])
            fns = []
            for k in range(7):
                if (k + 1) in acc:
                    fns.append((names[k], (lambda kk: (lambda payload: {"by": kk}))(k + 1)))
                else:
                    def rej(payload):
                        raise ValueError("not mine")
                    fns.append((names[k], rej))
            AutoDecoder.payload_decoder_functions = fns
            dec = AutoDecoder()
            if tr["prev"]:
                # reach the remembered decoder: a payload only decoder prev accepts
                AutoDecoder.payload_decoder_functions = [(names[k], (lambda kk: (lambda p: {"by": kk}))(k + 1)) if k + 1 == tr["prev"] else (names[k], rej)
                                                         for k in range(7)]
                dec.decode_message_payload(b"prime")
                AutoDecoder.payload_decoder_functions = fns
            try:
                res = dec.decode_message_payload(b"x")
                got = res["by"] if isinstance(res, dict) else 0
            except Exception as ex:  # noqa: BLE001 - an exception is an answer of the code under test, never of the harness
                got = f"raised {type(ex).__name__}"
            try:
                psd = dec.previous_success_decoder
                pa = names.index(psd) + 1 if psd else 0
            except Exception as ex:  # noqa: BLE001
                pa = f"raised {type(ex).__name__}"
            n += 1
            if got != tr["result"] or pa != tr["prev_after"]:
                chk.violation("auto-gen", f"spec->code: from remembered decoder {tr['prev']} with accepting decoders {sorted(acc)} the AutoDecoder used "
                              f"decoder {got} and remembers {pa}; the specification expects {tr['result']} / {tr['prev_after']}",
                              {"kind": "auto-gen", "transition": tr})
    finally:
        AutoDecoder.payload_decoder_functions = saved
    chk.cov["behaviours_replayed"] = chk.cov.get("behaviours_replayed", 0) + n
    chk.cov["traces_validated_against_impl"] += n
    chk.sample({"model_transition": exp[len(exp) // 3]})


def models(chk: Check):
    chk.model("auto", "MC_AutoDecoder", workers=8, coverage=True, timeout=600)


def run_c12(chk: Check) -> int:
    quick = chk.tier == "quick"
    models(chk)
    stub_walk(chk)
    rng = chk.rng
    gen = genuine_pool()
    junk = junk_pool(rng, gen)
    bnd = boundary_genuine(rng)
    pool = gen + junk + bnd
    chk.cov["pool"] = {"genuine": len(gen), "junk": len(junk), "boundary_genuine": len(bnd)}
    hists = []
    small = gen[:: (2 if quick else 1)] + junk[:: (3 if quick else 1)]
    for a in small:                       # all histories of length 1 and 2 (3 in thorough over a reduced pool)
        hists.append([a + (False,)])
        for b in small:
            hists.append([a + (False,), b + (rng.random() < 0.3,)])
    if not quick:
        red = gen[::3] + junk[::4]
        for a, b, c in itertools.product(red, repeat=3):
            hists.append([a + (False,), b + (False,), c + (rng.random() < 0.3,)])
    for _ in range(150 if quick else 1500):
        hists.append([rng.choice(pool) + (rng.random() < 0.3,) for _ in range(rng.randint(3, 30))])
    # decode_message == decode_message_payload whatever the envelope says about itself: intact and damaged HDLC frames around
    # every genuine message, and DLMS messages too short to be "valid" that a decoder nevertheless accepts
    for g in gen:
        for desc in ("hdlc", "hdlc_badfcs", "dlms"):
            hists.append([g + (desc,)])
        hists.append([g + (False,), g + ("hdlc_badfcs",)])
    for tiny in (b"\x02\x00", b"\x02\x01\x0f\x05", b"\x02\x01\x00", b"\x01\x00"):
        hists.append([("tiny:" + tiny.hex(), tiny, 0, "dlms")])
        hists.append([gen[0] + (False,), ("tiny:" + tiny.hex(), tiny, 0, "dlms")])
    # decode_message(DataReadout): accepted and rejected identification lines, fresh and after other messages; the remembered decoder may
    # only change together with a non-None result
    p1s = [g for g in gen if all(c < 128 for c in g[1]) and b"!" not in g[1] and g[2] != 0]
    for g in p1s[:: (2 if quick else 1)]:
        for ident in IDENTS:
            d = "readout:" + ident.hex()
            hists.append([g + (d,)])
            hists.append([g + (d,), g + (False,)])
            other = rng.choice([x for x in gen if x[2] not in (0, g[2])])
            hists.append([other + (False,), g + (d,), other + (False,)])
            hists.append([g + (False,), g + (d,), g + (d,)])
    for g in bnd:                   # boundary-valued genuine messages: fresh decoder, and after a same-meter message
        hists.append([g + (False,)])
        same = [x for x in gen if x[2] == g[2]]
        if same:
            hists.append([rng.choice(same) + (False,), g + (False,)])
    # long runs of one decoder, then a message only another decoder accepts (nothing may "lock on")
    for g in gen[:: (3 if quick else 1)]:
        others = [x for x in gen if x[2] not in (0, g[2])]
        for k in ((12, 13) if quick else (11, 12, 13, 20, 40, 100)):
            hists.append([g + (False,)] * k + [rng.choice(others) + (False,), g + (False,)])
    # same-meter-same-form histories (the genuine-message clause)
    for name, b, own in gen:
        same = [g for g in gen if g[2] == own]
        hists.append([rng.choice(same) + (False,) for _ in range(4)] + [(name, b, own, False)])
    rng.shuffle(hists)
    with mp.Pool(16) as pool_:
        res = pool_.map(_job_histories, [hists[j::64] for j in range(64)])
    traces = [t for r in res for t in r]
    traces += canaries(traces, rng)
    verdicts = chk.judge("auto", "Trace_Auto", traces, what="c12-histories")
    harvest(chk, traces, verdicts, ("C12",))
    t = next(t for t in traces if len(t["calls"]) == 2)
    chk.sample({"names": t["names"], "calls": [{k: c[k] for k in ("acc", "same", "outcome", "prev_before", "prev_after", "own", "pair")} for c in t["calls"]]})
    chk.assumptions += ["'accepts' = the decoder returns a dictionary when called on its own, whatever it raises otherwise (DESIGN §8-7)",
                        "result identity = equality of the returned dictionary with the individual decoder's dictionary"]
    return chk.finish(rule="model: all histories <=3 over all 2^7 acceptance vectors; spec->code: all 8 x 128 model transitions replayed with stub "
                           "decoders; code->spec: real decoders, pool of every captured message in frame and body form, P1 blocks, junk, truncations, "
                           "mutations; all histories of length <=2 (" + ("" if quick else "<=3 over a reduced pool, ") + "), random histories to "
                           "30, same-meter histories; decode_message vs decode_message_payload in lockstep; decode_message(DataReadout) with 7 identification lines "
                           "(accepted and rejected); each call judged by TLC; non-trivial = distinct history")


def replay_any(chk: Check, rp: dict, prefixes) -> int:
    """Re-run a recorded history: same payloads, same entry points, same kind of message objects, fresh decoder(s)."""
    if rp.get("kind") == "auto-gen":
        stub_walk(chk)
        return chk.finish(rule="replay of the model transitions")
    from han.autodecoder import AutoDecoder
    t = rp["trace"]
    calls = []
    if t["id"] and len(t["names"]) == 1 and len(t["calls"]) > 1:
        # a C15 record: every call starts from its own decoder, primed as recorded (prev_before)
        gen = genuine_pool()
        for c in t["calls"]:
            payload = bytes.fromhex(c["payload"])
            dec = AutoDecoder()
            if c["prev_before"] > 0:
                g = next((x for x in gen if x[2] == c["prev_before"]), None)
                if g:
                    guarded(dec.decode_message_payload, g[1])
            if c["form"] in ("message", "readout"):
                calls.append(observe(dec, payload, c["own"], message=message_from(c.get("msg", "dlms"), payload), msgdesc=c.get("msg", "dlms")))
            else:
                calls.append(observe(dec, payload, c["own"]))
    else:
        dec, twin = AutoDecoder(), AutoDecoder()
        for c in t["calls"]:
            payload = bytes.fromhex(c["payload"])
            if c["form"] in ("message", "readout"):
                calls.append(observe(dec, payload, c["own"], message=message_from(c.get("msg", "dlms"), payload), twin=twin, msgdesc=c.get("msg", "dlms")))
            else:
                calls.append(observe(dec, payload, c["own"]))
                guarded(twin.decode_message_payload, payload)
    nt = {"id": "replay-" + str(t["id"]), "canary": "", "names": t["names"], "calls": calls}
    v = chk.judge("auto", "Trace_Auto", [nt], what="replay")
    harvest(chk, [nt], v, prefixes)
    return chk.finish(rule="replay of one history")


def replay_c12(chk, rp):
    return replay_any(chk, rp, ("C12",))


def PRIMERS():
    gen = genuine_pool()
    pr = [("fresh", None)]
    for own in range(1, 8):
        g = next((x for x in gen if x[2] == own), None)
        if g:
            pr.append((f"after:{g[0]}", g[1]))
    return pr


# ----------------------------------------------------------------------------- C15
def run_c15(chk: Check) -> int:
    quick = chk.tier == "quick"
    models(chk)
    import os
    path = os.path.join(chk.rundir, "MC_P1Parse_run.cfg")
    with open(path, "w") as f:
        f.write(f"SPECIFICATION Spec\nCONSTANTS\n Fixed = TRUE\n MaxLen = {7 if quick else 8}\nPROPERTY Progress\nINVARIANT Bounded\nCHECK_DEADLOCK FALSE\n")
    chk.model("p1", "MC_P1Parse", path, workers=16, coverage=True, timeout=900)
    parse_replay(chk, 6 if quick else 8)
    chk.sensitivity("p1", "MC_P1Parse", "CONSTANTS\n Fixed = FALSE\n MaxLen = 7\n", "Progress", prop=True, what="F7a: parser without the missing-parenthesis test (pinned tree)")
    chk.sensitivity("auto", "MC_AutoDecoder", 'CONSTANTS\n MaxCalls = 3\n Caught = {"Construct", "Value"}\n'
                    ' Raised = {"Construct", "Value", "Arithmetic", "Lookup", "Type", "Attribute"}\n', "NothingEscapes",
                    what="F7b: except clause catching ConstructError and ValueError only (pinned tree)")
    rng = chk.rng
    gen = genuine_pool()
    items = []
    for name, b, _ in gen:
        items += mutations(rng, name, b, quick)
    for _ in range(300 if quick else 3000):
        items.append(("rand", bytes(rng.randrange(256) for _ in range(rng.choice([1, 2, 8, 30, 100, 300])))))
    for _ in range(300 if quick else 3000):
        items.append(("ascii", bytes(rng.choice(b"()*.-:0123456789aAkWhinf e+\r\n") for _ in range(rng.randint(1, 60)))))
    for s in (b"1-0:99.97.0(2)(0-0:96.7.19)(170520130938S)(0000005627*s)\r\n", b"1.8.0(inf*kW)", b"1.8.0(nan*kW)", b"1.8.0(1e999*kWh)", b"1.0(5", b"1.0(5)xyz", b"1.0(5)x)", b"a*(", b"(" * 500, b")" * 500, b"(" * 3000, b"1.8.0" + b"(1)" * 600, b"1.8.0" + b"(1)" * 1100, b"1.8.0" + b"(1)" * 2500,
              b"1-0:1.8.0" + b"(1*kWh)" * 1300, b"1.8.0(" * 1200, b"1.8.0" + b"()" * 1500, b"1.8.0(1)\r\n" * 1200, b"1.8.0(1*" + b"k" * 3000 + b")",
              b"1.8.0(" + b"9" * 5000 + b"*kWh)", b"1.8.0(1)" * 800, b"a(" * 700, b"1.0.0(999999999999)", b"1.0.0(21)", b"0-0:1.0.0(2101061607)"):
        items.append(("crafted", s))
    # addresses made of long runs of one unit followed by something that cannot belong to an OBIS code (patterns a backtracking regex chokes on)
    for unit in ("1", "1.", "1-", "1:", "1*", "12", "0.", ".", "-", "a", " ", "1.2.3.4.5.6", "1-0:"):
        for n in (20, 28, 36, 44, 60, 200):
            for tail in ("x", "", "!", ".", "x.1"):
                items.append(("crafted-address", ((unit * n)[:n * 2] + tail + "(5)").encode()))
                items.append(("crafted-address-in-block", ("1-0:1.8.0(1*kWh)\r\n" + (unit * n)[:n * 2] + tail + "(5*V)\r\n").encode()))
    # the same inside the parentheses: values and units made of a long run of one unit followed by a character that cannot belong to a value
    # (a validating regex with nested quantifiers backtracks exponentially exactly there)
    for unit in ("1", "a", "1.", "ab", "0 ", "x ", "k", "W", "1,"):
        for n in (24, 36, 60, 200):
            for tail in ("/", "!", " ", "*", "(", "x/"):
                run = (unit * n)[:n * 2]
                items.append(("crafted-value", f"0-0:96.1.1({run}{tail})\r\n".encode()))
                items.append(("crafted-unit-in-block", f"1-0:32.7.0(230.1*V)\r\n1-0:1.8.0(1*{run}{tail})\r\n".encode()))
    # numeric literal forms Python's converters accept or nearly accept, under every unit class (exponents make big integers)
    lits = ["1E9", "1e99", "1E999", "1E9999", "1E99999", "010E999976", "1E9999999", "1E-999999", "9" * 400, "0." + "0" * 400 + "1", "1_000", " 1", "+1", "-1",
            "0x10", "1.", ".5", "Infinity", "-inf", "NaN", "1e", "e5", "1E+5", "١٢٣", "1,5", "--1", "1e-5", "00"]
    for unit in ("*kWh", "*kW", "*kvarh", "*kvar", "*V", "*A", "*W", "*var", "*varh", "*Wh", "", "*s", "*m3"):
        for lit in lits:
            items.append(("crafted-number", f"1-0:1.8.0({lit}{unit})\r\n".encode()))
            items.append(("crafted-number-in-block", f"1-0:32.7.0(230.1*V)\r\n1-0:1.8.0({lit}{unit})\r\n0-0:96.1.0(abc)\r\n".encode()))
    # minimal COSEM lists: every type tag as first / only element value, for every list grammar
    ob = bytes([9, 6, 1, 1, 1, 7, 0, 255])
    dt = bytes([9, 12, 7, 0xE6, 1, 1, 1, 0, 0, 0, 0xFF, 0x80, 0, 0])
    for tag in ((0, 2, 6, 9, 10, 15, 18, 22, 255) if quick else (0, 1, 2, 3, 4, 5, 6, 9, 10, 12, 13, 15, 16, 17, 18, 22, 23, 255)):
        for val in ((bytes([tag]), bytes([tag, 1, 65]), bytes([tag, 0, 0, 0, 1])) if quick else
                    (bytes([tag]), bytes([tag, 0]), bytes([tag, 1, 65]), bytes([tag, 0, 0, 0, 1]), bytes([tag, 2, 2, 15, 0, 22, 27]))):
            for body in (bytes([2, 1]) + val, bytes([2, 1]) + ob + val, bytes([2, 2]) + ob + val, bytes([2, 3, 10, 1, 65]) + ob + val,
                         bytes([1, 1, 2, 2]) + ob + val, bytes([2, 1]) + dt + val, bytes([2, 2]) + ob + dt + val):
                items.append(("crafted-cosem", body))
                items.append(("crafted-cosem-frame", bytes([0xE6, 0xE7, 0, 0x0F, 0x40, 0, 0, 0, 0]) + body))
                items.append(("crafted-cosem-frame-dt", bytes([0xE6, 0xE7, 0, 0x0F, 0x40, 0, 0, 0]) + dt + body))
    for n in (200, 800, 3200):   # length sweep for the step-count clause
        items.append((f"sweep{n}", (b"1-0:1.8.0(00001.000*kWh)\r\n" * (n // 26 + 1))[:n]))
        items.append((f"sweepbin{n}", gen[0][1] * (n // len(gen[0][1]) + 1)))
    primers = PRIMERS()
    if quick:
        primers = primers[:1] + rng.sample(primers[1:], 3)
    rng.shuffle(items)
    chk.cov["inputs"] = len(items)
    chk.cov["primers"] = [p for p, _ in primers]
    with mp.Pool(16) as pool_:
        res = pool_.map(_job_c15, [(items[j::64], primers) for j in range(64)])
    traces = [t for r in res for t in r]
    traces += canaries(traces, rng)
    verdicts = chk.judge("auto", "Trace_Auto", traces, what="c15-inputs")
    harvest(chk, traces, verdicts, ("C15",))
    t = next(t for t in traces if t["names"][0].startswith("set"))
    chk.sample({"input": t["names"][0], "calls": [{k: c[k] for k in ("outcome", "detail", "prev_before", "steps", "n")} for c in t["calls"][:3]]})
    chk.assumptions += ["'time and memory bounded by a small polynomial' is observed (profile events <= 400000 + 6000 n + 40 n^2, 4 s alarm, "
                        "3 GiB address space), not modelled"]
    return chk.finish(rule="model: parser termination for all lines <=7/8 over {a,(,),*} (action property pos' > pos), AutoDecoder with raising decoders; "
                           "spec->code: the spec's parse result for every such line replayed into parse_data_block; code->spec: every truncation and "
                           "1..5-octet mutation class (tags, lengths, OBIS, 0xFF date-times, deletions) of every captured message, random bytes, ASCII "
                           "fragments, crafted values (28 numeric literal forms incl. 4..7-digit exponents x 13 units, unbalanced parentheses), each from several remembered-decoder states; outcome "
                           "must be dict or None; non-trivial = distinct input")


def replay_c15(chk, rp):
    if rp.get("kind") == "parse-gen":
        parse_replay(chk, 6)
        return chk.finish(rule="replay of the parser cases")
    return replay_any(chk, rp, ("C15",))


def _parse_job(cases):
    from .core import set_logging
    set_logging(cases)
    _limit_memory()
    from han.dlde import DataSet
    bad = []
    for c in cases:
        line = bytes(c["line"]).decode("ascii")
        o, v, steps = guarded(DataSet.parse_data_block, line, limit=3.0)
        exp = c["res"]
        if o == "hang":
            bad.append((c, "hang", ""))
        elif o == "raised":
            if exp["err"] != v:
                bad.append((c, "raised", v))
        else:
            if exp["err"]:
                bad.append((c, "returned", str(v)))
                continue
            got = [{"addr": list(d.address.encode()) if d.address is not None else [], "hasaddr": d.address is not None,
                    "values": [{"value": list(x.value.encode()), "unit": list((x.unit or "").encode()), "hasunit": x.unit is not None} for x in d.values]}
                   for d in v]
            if got != exp["items"]:
                bad.append((c, "differs", str(v)))
    return bad, len(cases)


def parse_replay(chk: Check, n: int):
    from . import tlc
    cases = tlc.export("p1", "Gen_P1Parse", rundir=chk.rundir, env={"GEN_LEN": str(n)}, timeout=900, xmx="6g")
    with mp.Pool(16) as pool_:
        res = pool_.map(_parse_job, [cases[j::32] for j in range(32)])
    tot = 0
    for bad, k in res:
        tot += k
        for c, how, detail in bad:
            line = bytes(c["line"]).decode()
            if how == "hang":       # C15 is about termination; what the parser returns or raises for malformed lines is the implementation-shaped spec's business
                chk.violation(f"parse-{how}", f"spec->code: parse_data_block({line!r}) does not terminate; the specification expects {c['res']}",
                              {"kind": "parse-gen", "case": c})
            else:
                chk.drift(f"parse_data_block({line!r}) {how} {detail}; the implementation-shaped specification P1Parse expects {c['res']}")
    chk.count("parse-replay", tot)
    chk.cov["behaviours_replayed"] = chk.cov.get("behaviours_replayed", 0) + tot
    chk.cov["traces_validated_against_impl"] += tot
    chk.cov["parser_lines_exhaustive_len"] = n
