"""C03 — FCS-16 equals RFC 1662 for every input (DESIGN §6-C03)."""
from __future__ import annotations

import multiprocessing as mp

from .core import Check, stable_id
from .tlc import MachineryError

_TAB = None


def _init(tab):
    global _TAB
    _TAB = tab


def _sweep(args):
    """For every register reachable with the two octets (o1, *), feed every octet of `octs`.

    Public API only: the register is read back as checksum ^ 0xFFFF."""
    o1, octs = args
    from han.fastframecheck import FastFrameCheckSequence16 as F
    tab = _TAB
    regs = []
    bad = []
    n = 0
    for o2 in range(256):
        try:
            f = F()
            f.update(o1)
            r = f.update(o2)
            if (f.checksum ^ 0xFFFF) != r:
                bad.append(("checksum_vs_update", o1, o2, r, f.checksum))
            regs.append(r)
            # residue: feed the complemented register low octet first -> is_good
            g = F(); g.update(o1); g.update(o2)
            c = g.checksum
            g.update(c & 0xFF); g.update(c >> 8)
            if not g.is_good:
                bad.append(("residue", o1, o2, r))
            for b in octs:
                h = F(); h.update(o1); h.update(o2)
                got = h.update(b)
                exp = (r >> 8) ^ tab[(r ^ b) & 0xFF]
                n += 1
                if got != exp:
                    if len(bad) < 5:
                        bad.append(("step", o1, o2, r, b, got, exp))
        except Exception as ex:  # noqa: BLE001 - an exception out of the public API is a mismatch with the definition
            if len(bad) < 5:
                bad.append(("raised", o1, o2, type(ex).__name__))
    return regs, bad, n


def run(chk: Check) -> int:
    quick = chk.tier == "quick"
    # 1. the model: FStep = BitStep on all 2^24 pairs + lemmas (independent of /repo)
    chk.model("fcs", "MC_Fcs16", workers=16, coverage=not quick, timeout=900)
    # 2. spec -> code: exported table, exhaustive replay of the step function through update()
    ex = chk_export(chk)
    tab = [ex["tab"][str(i)] for i in range(256)]
    octs = [0, 1, 0x7E, 0x7D, 0x80, 0xFF, chk.rng.randrange(256), chk.rng.randrange(256)] if quick else list(range(256))
    with mp.Pool(16, initializer=_init, initargs=(tab,)) as pool:
        res = pool.map(_sweep, [(o1, octs) for o1 in range(256)], chunksize=4)
    regs = set()
    nsteps = 0
    for o1, (rs, bad, n) in enumerate(res):
        regs.update(rs)
        nsteps += n
        for b in bad:
            chk.violation(f"fcs-{b[0]}", f"FCS {b[0]} mismatch: {b}", {"kind": "fcs-sweep", "case": list(b)})
    if len(regs) != 65536:
        # the two-octet reach is a bijection for the RFC step; anything else means the step is wrong
        chk.violation("fcs-reach", f"two-octet prefixes reach only {len(regs)} of 65536 registers",
                      {"kind": "fcs-sweep", "case": ["reach", len(regs)]})
    chk.count("sweep", nsteps)
    chk.cov["step_pairs_replayed"] = nsteps
    chk.cov["registers_reached"] = len(regs)
    chk.cov["exhaustive"] = (not quick) and len(regs) == 65536
    # reference vectors
    from han.fastframecheck import FastFrameCheckSequence16 as F
    for v in ex["vectors"]:
        d = bytes(v["data"])
        try:
            got = F.compute_checksum(d, 0, len(d))
        except Exception:  # noqa: BLE001
            got = -1
        chk.count("vec" + d.hex())
        if got != v["fcs"]:
            chk.violation("fcs-vector", f"compute_checksum({d.hex()}) = {got:#x}, RFC bit-serial = {v['fcs']:#x}",
                          {"kind": "fcs-vector", "data": list(d)})
    # 3. code -> spec: recorded traces judged by TLC with the bit-serial definition
    traces = []
    rng = chk.rng
    ntr = 60 if quick else 1500
    for k in range(ntr):
        style = k % 6
        n = rng.choice([0, 1, 2, 3, 4, 7, 16, 33, 64, 100]) if style else rng.randint(0, 300)
        data = bytearray(rng.randrange(256) for _ in range(n))
        if style == 1 and n >= 0:  # append the correct FCS so that is_good must be True at the end
            c = F.compute_checksum(bytes(data), 0, len(data))
            data += bytes([c & 0xFF, c >> 8])
        elif style == 2 and n >= 0:  # FCS high octet first (must NOT be good), or one bit off
            c = F.compute_checksum(bytes(data), 0, len(data))
            data += bytes([c >> 8, c & 0xFF]) if rng.random() < 0.5 else bytes([(c & 0xFF) ^ 1, c >> 8])
        elif style == 3:
            data = bytearray(rng.choice([0x7E, 0x7D, 0, 0xFF]) for _ in range(n))
        elif style == 4:
            # a prefix that ends with its own FCS (is_good must be True there), then more octets (must be False again),
            # then possibly a second good point: the register has no memory of earlier good states
            c = F.compute_checksum(bytes(data), 0, len(data))
            data += bytes([c & 0xFF, c >> 8]) + bytes(rng.randrange(256) for _ in range(rng.randint(1, 12)))
            if rng.random() < 0.5:
                c = F.compute_checksum(bytes(data), 0, len(data))
                data += bytes([c & 0xFF, c >> 8])
                data += bytes(rng.randrange(256) for _ in range(rng.randint(0, 3)))
        traces.append(record(bytes(data), rng))
    # canaries: corrupt one recorded value
    for k, kind in enumerate(["ret", "checksum", "good", "win"]):
        t = record(bytes(rng.randrange(256) for _ in range(12)) + b"\x01", rng, force_windows=True)
        t["id"] = f"canary-{kind}"
        t["canary"] = kind
        if kind == "win":
            t["windows"][0]["ret"] ^= 1
        elif kind == "good":
            t["steps"][-1]["good"] = not t["steps"][-1]["good"]
        else:
            t["steps"][5][kind] ^= 0x100
        traces.append(t)
    verdicts = chk.judge("fcs", "Trace_Fcs16", traces, what="fcs-traces")
    for t, v in zip(traces, verdicts):
        if t["canary"]:
            continue
        chk.count(t["id"])
        if not v["ok"]:
            chk.violation(f"fcs-trace-{v['clause']}", f"FCS trace rejected by TLC: clause {v['clause']} at {v['at']}",
                          {"kind": "fcs-trace", "trace": t, "verdict": v})
    chk.sample({"data": traces[1]["data"][:12], "steps": traces[1]["steps"][:3], "windows": traces[1]["windows"][:2]})
    chk.assumptions += [
        "RFC 1662 bit-serial step transcribed in spec/common/Fcs16.tla (BitStep) is the reference",
        "step-function sweep compares update() with the TLC-exported table in Python (transport + equality only); "
        "table = bit-serial step is established by TLC (StepEq over 2^24 pairs)",
    ]
    return chk.finish(
        rule="model: 65536 registers x 256 octets (StepEq, Linear), Residue/S0Inj/TabHighDistinct lemmas; "
             "replay: every register (reached by a 2-octet prefix through update()) x "
             + ("8 octets" if quick else "all 256 octets") + "; traces: random/structured strings with per-octet "
             "update()/checksum/is_good and compute_checksum windows judged by TLC bit-serially; distinct = distinct traces + sweep")


def chk_export(chk: Check):
    from . import tlc
    return tlc.export("fcs", "Gen_Fcs16", rundir=chk.rundir)


def record(data: bytes, rng, force_windows=False) -> dict:
    from han.fastframecheck import FastFrameCheckSequence16 as F
    f = F()
    by = F()          # a second checker used between the calls: instances are independent
    steps = []
    for b in data:
        try:
            by.update(b ^ 0x5A)
            F.compute_checksum(bytes([b, 0x7E, b ^ 0xFF]), 0, 3)
        except Exception:  # noqa: BLE001
            pass
        try:
            ret = f.update(b)
            steps.append({"ret": int(ret), "checksum": int(f.checksum), "good": bool(f.is_good)})
        except Exception:  # noqa: BLE001
            steps.append({"ret": -1, "checksum": -1, "good": False})
    wins = []
    n = len(data)
    cand = [(0, n), (0, 0), (n, 0)]
    if n:
        cand += [(n - 1, 1), (0, 1)]
        for _ in range(3):
            s = rng.randint(0, n)
            cand.append((s, rng.randint(0, n - s)))
    # calls outside the domain (window past the end, other buffer types) happen between the judged ones: whatever they do,
    # they must not change what a later call in the domain returns
    outside = [lambda: F.compute_checksum(data, max(0, n - 2), 8), lambda: F.compute_checksum(data[:3], 0, 8),
               lambda: F.compute_checksum(b"", 0, 1), lambda: F.compute_checksum(data, n, 2), lambda: F.compute_checksum(None, 0, 1)]
    cand = cand[:3] + [None] + cand[:1] + cand[3:] + [None, (0, n)]
    for k, c in enumerate(cand):
        if c is None:
            try:
                outside[(k + n) % len(outside)]()
            except Exception:  # noqa: BLE001
                pass
            continue
        s, ln = c
        try:
            wins.append({"start": s, "length": ln, "ret": int(F.compute_checksum(data, s, ln))})
        except Exception:  # noqa: BLE001
            wins.append({"start": s, "length": ln, "ret": -1})
    # the same windows through a caller-owned bytearray that held other content during an earlier call, and through a memoryview
    if n:
        buf = bytearray(bytes(b ^ 0xFF for b in data))
        for s, ln in [c for c in cand if c is not None][:4]:
            try:
                F.compute_checksum(buf, s, ln)              # earlier call on the old content
            except Exception:  # noqa: BLE001
                pass
        buf[:] = data
        for k, c in enumerate([c for c in cand if c is not None][:6]):
            s, ln = c
            try:
                wins.append({"start": s, "length": ln, "ret": int(F.compute_checksum(buf if k % 2 == 0 else memoryview(buf), s, ln))})
            except TypeError:
                pass            # the signature says bytes: refusing another buffer type is not a wrong checksum
            except Exception:  # noqa: BLE001
                wins.append({"start": s, "length": ln, "ret": -1})
    return {"id": stable_id("fcs", data.hex()), "canary": "", "data": list(data), "steps": steps, "windows": wins}


def replay(chk: Check, rp: dict) -> int:
    from han.fastframecheck import FastFrameCheckSequence16 as F
    if rp.get("kind") == "fcs-trace":
        t = record(bytes(rp["trace"]["data"]), chk.rng)
        v = chk.judge("fcs", "Trace_Fcs16", [t], what="replay")[0]
        if not v["ok"]:
            chk.violation(f"fcs-trace-{v['clause']}", f"still rejected: {v}", {"kind": "fcs-trace", "trace": t, "verdict": v})
    else:
        ex = chk_export(chk)
        tab = [ex["tab"][str(i)] for i in range(256)]
        _init(tab)
        case = rp.get("case", [])
        o1s = [case[1]] if len(case) > 2 and isinstance(case[1], int) else range(256)
        for o1 in o1s:
            _, bad, _ = _sweep((o1, list(range(256))))
            for b in bad:
                chk.violation(f"fcs-{b[0]}", f"FCS {b[0]} mismatch: {b}", {"kind": "fcs-sweep", "case": list(b)})
        for v in ex["vectors"]:
            d = bytes(v["data"])
            if F.compute_checksum(d, 0, len(d)) != v["fcs"]:
                chk.violation("fcs-vector", "vector mismatch", {"kind": "fcs-vector", "data": list(d)})
    return chk.finish(rule="replay")
