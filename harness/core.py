"""Check context: run directory, evidence, known findings, verdict policy (DESIGN §3)."""
from __future__ import annotations

import hashlib
import json
import os
import random
import shutil
import subprocess
import sys
import tempfile
import time

from . import tlc
from .tlc import MachineryError

VERIF = tlc.VERIF
REPO = os.environ.get("VERIF_REPO", "/repo")
NONE = -1  # "absent" in trace files (TLC has no null)


class _Sink(__import__("logging").Handler):
    """Formats every record (so lazily formatted arguments are evaluated, as any real handler would) and throws it away."""

    def emit(self, record):
        try:
            self.format(record)
        except Exception:  # noqa: BLE001 - what logging itself does with a formatting error
            pass


_REAL_CLOCKS: dict = {}


def _fast_clocks(on: bool) -> None:
    import time
    if not _REAL_CLOCKS:
        _REAL_CLOCKS.update(monotonic=time.monotonic, perf_counter=time.perf_counter, time=time.time, skew=[0.0])
    if on:
        def mk(real):
            def clock():
                _REAL_CLOCKS["skew"][0] += 1.7
                return real() + _REAL_CLOCKS["skew"][0]
            return clock
        time.monotonic, time.perf_counter, time.time = mk(_REAL_CLOCKS["monotonic"]), mk(_REAL_CLOCKS["perf_counter"]), mk(_REAL_CLOCKS["time"])
    else:
        time.monotonic, time.perf_counter, time.time = _REAL_CLOCKS["monotonic"], _REAL_CLOCKS["perf_counter"], _REAL_CLOCKS["time"]


def set_logging(key, debug: bool | None = None) -> None:
    """The library must behave the same whatever the application's logging configuration and time zone: jobs alternate (by a stable
    hash of `key`) between logging switched off and every logger at DEBUG with a formatting handler, and rotate through five TZ values."""
    import logging
    import zlib
    def cheap(k, depth=0):
        if isinstance(k, (list, tuple)) and depth < 3:
            return (len(k),) + tuple(cheap(x, depth + 1) for x in k[:2])
        if isinstance(k, (bytes, str)):
            return k[:40]
        return k if isinstance(k, (int, float, bool, type(None))) else type(k).__name__
    h = zlib.crc32(repr(cheap(key)).encode())
    # ... nor on the process's time zone (no statement mentions local time): jobs also rotate through five zones
    import os
    import time
    os.environ["TZ"] = ("UTC", "Pacific/Auckland", "America/St_Johns", "XYZ-5:30", "Europe/Oslo")[(h >> 1) % 5]
    time.tzset()
    # ... nor on the thread's decimal context (an application may have lowered the precision for its own arithmetic)
    import decimal
    decimal.getcontext().prec = (28, 6, 28, 3)[(h >> 4) % 4]
    # ... nor on how much real time passes between two calls: in pool workers the process clocks jump ahead by 1.7 s per reading
    import multiprocessing
    if multiprocessing.current_process().name != "MainProcess":
        _fast_clocks((h >> 6) % 2 == 1)
    if debug is None:
        debug = h % 2 == 1
    root = logging.getLogger()
    if not debug:
        logging.disable(logging.CRITICAL)
        return
    logging.raiseExceptions = False
    logging.disable(logging.NOTSET)
    if not any(isinstance(h, _Sink) for h in root.handlers):
        root.addHandler(_Sink())
    root.setLevel(logging.DEBUG)
    logging.getLogger("asyncio").setLevel(logging.WARNING)
    logging.getLogger("han").setLevel(logging.DEBUG)


_GAPS: dict = {}


def dst_wall_times() -> list[tuple]:
    """Civil (y, mo, d, h, mi, s) values that do not exist (spring forward) or exist twice (fall back) in the CURRENT process time zone,
    years 2021..2030, plus the local UTC offset in minutes as last element of each tuple. Empty for zones without daylight saving."""
    import datetime as _dt
    import os
    import time
    tz = os.environ.get("TZ", "")
    if tz in _GAPS:
        return _GAPS[tz]
    out = []
    t0 = 1609459200     # 2021-01-01Z
    prev = time.localtime(t0).tm_gmtoff
    for h in range(1, 10 * 366 * 24):
        off = time.localtime(t0 + h * 3600).tm_gmtoff
        if off != prev:
            lo, hi = t0 + (h - 1) * 3600, t0 + h * 3600
            while hi - lo > 1:
                mid = (lo + hi) // 2
                if time.localtime(mid).tm_gmtoff == prev:
                    lo = mid
                else:
                    hi = mid
            before = _dt.datetime(*time.localtime(hi - 1)[:6])
            for add in (1, 1800, abs(off - prev) - 1):
                x = before + _dt.timedelta(seconds=add if off > prev else add - abs(off - prev))
                out.append((x.year, x.month, x.day, x.hour, x.minute, x.second, off // 60))
        prev = off
    _GAPS[tz] = out
    return out


def repo_head() -> str:
    try:
        return subprocess.run(["git", "-C", REPO, "rev-parse", "--short", "HEAD"], capture_output=True,
                              text=True, timeout=10).stdout.strip()
    except Exception:  # pragma: no cover
        return "unknown"


def stable_id(*parts) -> str:
    h = hashlib.sha1(json.dumps(parts, sort_keys=True, default=str).encode()).hexdigest()
    return h[:12]


def load_findings() -> list[dict]:
    p = os.path.join(VERIF, "KNOWN_FINDINGS.json")
    if not os.path.exists(p):
        return []
    with open(p) as f:
        return json.load(f).get("entries", [])


class Check:
    """One run of one property check."""

    def __init__(self, pid: str, tier: str, seed: int, level: str = "model_checking"):
        self.pid = pid
        self.tier = tier
        self.seed = seed
        self.level = level
        self.rng = random.Random(f"{pid}-{seed}")
        self.t0 = time.time()
        self.rundir = tempfile.mkdtemp(prefix=f"amshan-verif-{pid}-")
        self.cov: dict = {"states": 0, "transitions": 0, "traces_validated_against_impl": 0, "samples": [],
                          "evaluations": 0, "distinct_nontrivial": 0, "models": [], "judged": {},
                          "canaries": {"planted": 0, "rejected": 0}, "drift": []}
        self.assumptions: list[str] = []
        self.violations: list[dict] = []
        self.known: list[str] = []
        self._distinct: set[str] = set()
        self.canary_accepted: list[str] = []
        self.findings = [f for f in load_findings() if f.get("property") == pid and f.get("kind") == "finding"]

    # ------------------------------------------------------------------ models
    def model(self, subdir: str, module: str, cfg: str | None = None, **kw) -> dict:
        """Run an Impl => Contract TLC model; failure is a machinery failure (the model does not depend on /repo)."""
        if os.environ.get("VERIF_OPT_PASS"):        # the optimized pass re-runs the drivers only; models were checked by the parent
            return {"module": module, "cfg": cfg or "", "states": 0, "distinct": 0, "depth": 0, "wall_s": 0.0, "actions": {}, "ok": True, "violated": None}
        st = tlc.run_model(subdir, module, cfg, rundir=self.rundir, **kw)
        self.cov["states"] += st["distinct"]
        self.cov["transitions"] += st["states"]
        never = [a for a, c in st["actions"].items() if c["taken"] == 0 and a not in ("Init",)]
        if never:
            raise MachineryError(f"vacuity guard: actions never taken in {module} {cfg}: {never}")
        self.cov["models"].append({k: st[k] for k in ("module", "cfg", "states", "distinct", "depth", "wall_s")}
                                  | {"actions": st["actions"], "never_taken": never})
        return st

    def sensitivity(self, subdir: str, module: str, consts: str, name: str, *, what: str, prop: bool = False, timeout: int = 600) -> None:
        """Model-level mutation guard: with the constants of a known-bad implementation variant (the pinned tree's behaviour kept as a
        constant of the implementation-shaped spec) TLC must find `name` violated - otherwise the contract has lost its teeth."""
        if os.environ.get("VERIF_OPT_PASS"):
            return
        path = os.path.join(self.rundir, f"S_{module}_{name}_{abs(hash(consts)) % 99991}.cfg")
        with open(path, "w") as f:
            f.write("SPECIFICATION Spec\n" + consts + ("PROPERTY " if prop else "INVARIANT ") + name + "\nCHECK_DEADLOCK FALSE\n")
        st = tlc.run_model(subdir, module, path, rundir=self.rundir, workers=8, coverage=False, timeout=timeout, must_pass=False)
        if name not in str(st["violated"]):
            raise MachineryError(f"sensitivity guard: {module} with the variant '{what}' does not violate {name} ({st['violated']}, {st['distinct']} states)")
        self.cov.setdefault("sensitivity", []).append({"module": module, "variant": what, "violates": name, "found_within_states": st["states"]})

    def witnesses(self, subdir: str, module: str, consts: str, names: list[str], *, timeout: int = 600, xmx: str = "4g") -> None:
        """Vacuity guard: each name is a state predicate written as an invariant that TLC must find VIOLATED (the negated
        antecedent of a property, or 'no state with X'): if TLC finishes without violating it, the property it guards was
        checked on nothing and the model run proves nothing -> machinery failure."""
        from concurrent.futures import ThreadPoolExecutor
        if os.environ.get("VERIF_OPT_PASS"):
            return

        def one(name):
            path = os.path.join(self.rundir, f"W_{module}_{name}_{abs(hash(consts)) % 99991}.cfg")
            with open(path, "w") as f:
                f.write("SPECIFICATION Spec\n" + consts + f"INVARIANT {name}\nCHECK_DEADLOCK FALSE\n")
            st = tlc.run_model(subdir, module, path, rundir=self.rundir, workers=2, coverage=False, timeout=timeout, xmx=xmx, must_pass=False)
            return name, st
        with ThreadPoolExecutor(max_workers=8) as ex:
            for name, st in ex.map(one, names):
                if st["violated"] != name:
                    raise MachineryError(f"vacuity guard: witness {name} of {module} was not reached ({st['violated']}, {st['distinct']} states): "
                                         f"the property it guards is vacuous in this model")
                self.cov.setdefault("witnesses", []).append({"module": module, "witness": name, "reached_within_states": st["states"]})

    # ------------------------------------------------------------------ judging
    def judge(self, subdir: str, module: str, traces: list[dict], *, what: str, shards: int = 16,
              timeout: int = 900, xmx: str = "3g") -> list[dict]:
        """TLC judges traces; canary traces must be rejected, others are reported via self.violation()."""
        verdicts, st = tlc.judge(subdir, module, traces, rundir=self.rundir, shards=shards, timeout=timeout, xmx=xmx)
        j = self.cov["judged"].setdefault(what, {"traces": 0, "accepted": 0, "rejected": 0, "tlc_wall_s": 0.0})
        j["traces"] += len(traces)
        j["tlc_wall_s"] = round(j["tlc_wall_s"] + st["tlc_judge_wall_s"], 2)
        for t, v in zip(traces, verdicts):
            if t.get("canary"):
                self.cov["canaries"]["planted"] += 1
                if v["ok"] and not v.get("drift"):   # a canary of a DRIFT-level clause is noticed through its drift tag
                    # decided in finish(): with violations in the same run the source trace itself was wrong (a canary is a corrupted copy
                    # of a recorded trace, and corrupting a wrong record can make it right); without any, the judge has lost its teeth
                    self.canary_accepted.append(f"canary '{t['canary']}' accepted by {module} (trace {t['id']})")
                else:
                    self.cov["canaries"]["rejected"] += 1
                continue
            self.cov["traces_validated_against_impl"] += 1
            if v["ok"]:
                j["accepted"] += 1
            else:
                j["rejected"] += 1
        return verdicts

    def count(self, key: str | None = None, n: int = 1):
        """Count an evaluation; `key` identifies the distinct non-trivial case (None = trivial)."""
        self.cov["evaluations"] += n
        if key is not None and key not in self._distinct:
            self._distinct.add(key)
            self.cov["distinct_nontrivial"] += 1

    def sample(self, obj, limit: int = 6):
        if len(self.cov["samples"]) < limit:
            self.cov["samples"].append(obj)

    # ------------------------------------------------------------------ verdicts
    def violation(self, signature: str, what: str, replay: dict):
        """Record a contract rejection. `signature` is matched against KNOWN_FINDINGS entries."""
        for f in self.findings:
            if f.get("signature") == signature:
                line = f"KNOWN-FINDING: property={self.pid} {f.get('what', what)}"
                if line not in self.known:
                    self.known.append(line)
                return
        same = sum(1 for v in self.violations if v is not None and v["signature"] == signature)
        if same >= 2 or len([v for v in self.violations if v is not None]) >= 12:
            self.violations.append(None)  # counted, not stored
            return
        if len(what) > 700:
            what = what[:520] + " ... " + what[-160:]
        self.violations.append({"signature": signature, "what": what, "replay": replay})

    def drift(self, what: str):
        if len(self.cov["drift"]) < 20:
            self.cov["drift"].append(what)

    # ------------------------------------------------------------------ finish
    def finish(self, rule: str, explanation: str = "") -> int:
        os.makedirs(os.path.join(VERIF, "evidence"), exist_ok=True)
        os.makedirs(os.path.join(VERIF, "replays"), exist_ok=True)
        nviol = len(self.violations)
        if self.canary_accepted and not nviol:
            raise MachineryError("; ".join(self.canary_accepted))
        for c in self.canary_accepted:
            print(f"note: {c} - its source trace is among the violations reported below", file=sys.stderr)
        lines = list(self.known)
        for v in self.violations:
            if v is None:
                continue
            rp = dict(v["replay"])
            rp.update({"property": self.pid, "signature": v["signature"], "what": v["what"], "seed": self.seed,
                       "tier": self.tier, "repo_head": repo_head(), "python_optimize": int(sys.flags.optimize)})
            name = f"{self.pid}-{stable_id(v['signature'], v['what'], self.seed)}.json"
            path = os.path.join(VERIF, "replays", name)
            with open(path, "w") as f:
                json.dump(rp, f, indent=1, default=str)
            lines.append(f"VIOLATION property={self.pid} replay={path}")
            print(f"  what: {v['what']}", file=sys.stderr)
        for d in self.cov["drift"]:
            print(f"DRIFT property={self.pid} {d}")
        cov = dict(self.cov)
        cov["rule"] = rule
        if explanation:
            cov["explanation"] = explanation
        if not cov["samples"]:
            cov["samples"] = ["(no sample recorded)"]
        if cov["distinct_nontrivial"] < 2 and cov["traces_validated_against_impl"] >= 2:
            cov["distinct_nontrivial"] = cov["traces_validated_against_impl"]
        if cov["evaluations"] < cov["traces_validated_against_impl"]:
            cov["evaluations"] = cov["traces_validated_against_impl"]
        ev = {"property_id": self.pid, "tier": self.tier, "seed": self.seed, "level": self.level, "coverage": cov,
              "assumptions": self.assumptions, "wall_s": round(time.time() - self.t0, 2), "violations": nviol,
              "known_findings": self.known, "repo_head": repo_head()}
        evdir = self.rundir if os.environ.get("VERIF_OPT_PASS") else os.path.join(VERIF, "evidence")
        with open(os.path.join(evdir, f"{self.pid}.json"), "w") as f:
            json.dump(ev, f, indent=1, default=str)
        for ln in lines:
            print(ln)
        print(f"[{self.pid}] tier={self.tier} seed={self.seed} states={cov['states']} "
              f"traces={cov['traces_validated_against_impl']} canaries={cov['canaries']['rejected']}/{cov['canaries']['planted']} "
              f"violations={nviol} wall={ev['wall_s']}s")
        self.cleanup()
        return 1 if nviol else 0

    def cleanup(self):
        if os.environ.get("VERIF_KEEP"):
            print("rundir kept:", self.rundir, file=sys.stderr)
        else:
            shutil.rmtree(self.rundir, ignore_errors=True)


def chunkings(rng: random.Random, n: int, k: int = 4) -> list[list[int]]:
    """A few ways of splitting a stream of n octets into call lengths: whole, per octet (if short), random cuts."""
    outs = [[n]] if n else [[]]
    if 0 < n <= 600:
        outs.append([1] * n)
    for _ in range(k):
        if n < 2:
            break
        style = rng.random()
        if style < 0.3:
            c = rng.randint(1, max(1, n - 1))
            outs.append([c, n - c])
        elif style < 0.6:
            sz = rng.choice([1, 2, 3, 5, 7, 16, 64, 100, 255, 256, 1000, 4096])
            cuts = [sz] * (n // sz) + ([n % sz] if n % sz else [])
            outs.append(cuts)
        else:
            cuts = []
            left = n
            while left:
                c = min(left, rng.choice([0, 1, 1, 2, 3, 5, 8, 13, 50, 200, 1500]))
                cuts.append(c)
                left -= c
            outs.append(cuts)
    return outs


def split(data: bytes, cuts: list[int]) -> list[bytes]:
    out, p = [], 0
    for c in cuts:
        out.append(data[p:p + c])
        p += c
    if p != len(data):
        raise ValueError((p, len(data)))
    return out
