"""C17 / C18 — ConnectionManager on a deterministic virtual-time event loop; BackOff strategy object."""
from __future__ import annotations

import asyncio
import itertools
import multiprocessing as mp
import random

from .core import Check, stable_id

OUTCOMES = ["ok", "fail", "slowok", "slowfail"]


def _ev(e, t, i=0, ok=False, cancelled=False, tasks=0):
    return {"e": e, "t": int(round(t * 1000)), "i": i, "ok": ok, "cancelled": cancelled, "tasks": tasks}


class _Spin(BaseException):
    """Raised out of the virtual loop when the code under test keeps it busy without letting time pass."""


_BYSTANDER_DONE = [False]


def _dst_base() -> float:
    """Epoch of a moment 20 s before the next change of this process's UTC offset in 2026 (spring forward or fall back), or
    2000-01-01 if the zone has none: the manager's wall clock crosses it during the scenario, its monotonic clock does not care."""
    import time
    t0 = 1767225600            # 2026-01-01T00:00:00Z
    prev = time.localtime(t0).tm_gmtoff
    for h in range(1, 366 * 24):
        off = time.localtime(t0 + h * 3600).tm_gmtoff
        if off != prev:
            lo, hi = t0 + (h - 1) * 3600, t0 + h * 3600
            while hi - lo > 1:
                mid = (lo + hi) // 2
                if time.localtime(mid).tm_gmtoff == prev:
                    lo = mid
                else:
                    hi = mid
            return float(hi - 20)
        prev = off
    return 946684800.0


def run_scenario(outcomes, lifetimes, close_iter, cfg, horizon=30.0, tail=40.0, slow=3.0, runs=1, close_iter2=None, idle_close=False, outside=False, sync_close=False):
    """One execution of the real ConnectionManager. Events are recorded by harness-owned fakes only.
    outside: the manager object is constructed while ANOTHER event loop is the current one (set-up code before the application's loop).
    sync_close: the transport's close() calls protocol.connection_lost() at once instead of scheduling it (a user-written transport may)."""
    if not _BYSTANDER_DONE[0]:
        # once per process: another manager has lived (one connection, an outage, close() in the middle of the back-off sequence).
        # Managers are independent objects: nothing of this may show in any later scenario.
        _BYSTANDER_DONE[0] = True
        run_scenario(["ok"] + ["fail"] * 6, [1] * 7, None, {"max_delay": 60, "threshold": 5, "sleep": 2}, horizon=40.0, tail=1.0)
    import han.meter_connection as mc
    from han.hdlc import HdlcFrameReader
    from .vloop import VLoop
    import datetime as real_dt

    loop = VLoop()
    asyncio.set_event_loop(loop)

    base = _dst_base()

    class FakeDT:  # stand-in for the datetime module inside meter_connection: the virtual clock as wall clock of this process's time zone
        class datetime:  # noqa: N801
            @staticmethod
            def utcnow():
                return real_dt.datetime(1970, 1, 1) + real_dt.timedelta(seconds=base + loop.time())

            @staticmethod
            def now(tz=None):
                return real_dt.datetime.fromtimestamp(base + loop.time(), tz)
        timedelta = real_dt.timedelta
        timezone = real_dt.timezone

    had_dt = hasattr(mc, "datetime")
    saved = getattr(mc, "datetime", None)
    if had_dt:
        mc.datetime = FakeDT
    ev, n, closed = [], [0], [False]
    err = [""]

    class T(asyncio.BaseTransport):
        def __init__(self, i):
            super().__init__()
            self.i, self.closed, self.proto = i, False, None

        def close(self):
            if not self.closed:
                self.closed = True
                ev.append(_ev("tclose", loop.time(), self.i))
                if sync_close:
                    self.proto.connection_lost(None)
                else:
                    loop.call_soon(self.proto.connection_lost, None)

        def is_closing(self):
            return self.closed

        def __len__(self):          # an idle transport with an empty write buffer is falsy - and still a transport
            return 0 if self.i % 3 == 1 else 1

        def get_extra_info(self, name, default=None):
            return default

    def ntasks():
        return len(asyncio.all_tasks(loop))

    async def factory():
        i = n[0]
        n[0] += 1
        oc = outcomes[i] if i < len(outcomes) else "ok"
        ev.append(_ev("attempt", loop.time(), i, tasks=ntasks()))
        try:
            if "slow" in oc:
                await asyncio.sleep(slow)
        except asyncio.CancelledError:
            ev.append(_ev("attempt_end", loop.time(), i, ok=False, cancelled=True))
            raise
        if "fail" in oc:
            ev.append(_ev("attempt_end", loop.time(), i, ok=False))
            # a failed attempt is a failed attempt whatever the factory raises
            import socket
            k = (i + len(outcomes)) % 10
            if k == 7:
                raise socket.gaierror(socket.EAI_NONAME, "Name or service not known")      # an OSError whose errno is not an errno code
            if k == 8:
                raise OSError(99999, "connect failed")
            if k == 9:
                raise ConnectionResetError(104, "Connection reset by peer")
            raise [OSError, TimeoutError, ConnectionRefusedError, asyncio.TimeoutError, RuntimeError, ValueError, EOFError][k]("connect failed")
        q = asyncio.Queue()
        p = mc.SmartMeterMessageProtocol(q, [HdlcFrameReader()])
        t = T(i)
        t.proto = p
        p.connection_made(t)
        ev.append(_ev("attempt_end", loop.time(), i, ok=True))
        life = lifetimes[i] if i < len(lifetimes) else None
        if life is not None:
            def lose():
                if not t.closed:
                    ev.append(_ev("lost", loop.time(), i))
                    t.closed = True
                    p.connection_lost(OSError("lost"))
            if life == -2:          # lost at once, before the factory coroutine has even returned
                lose()
            else:
                loop.call_later(life, lose)
        return t, p

    other = None
    if outside:
        other = asyncio.new_event_loop()
        asyncio.set_event_loop(other)
    cm = mc.ConnectionManager(factory)
    if outside:
        asyncio.set_event_loop(loop)
    cm.back_off_connect_error.max_delay = cfg["max_delay"]
    cm.connection_lost_back_off_threshold = cfg["threshold"]
    cm.connection_lost_back_off_sleep_sec = cfg["sleep"]

    def do_close():
        if not closed[0]:
            closed[0] = True
            ev.append(_ev("close", loop.time()))
            try:
                cm.close()
            except Exception as ex:  # noqa: BLE001
                err[0] = "close:" + type(ex).__name__

    orig = loop._run_once

    run_no = [0]
    base_iter = [0]

    spin = [0.0, 0]

    def hooked():
        # no progress of virtual time over very many loop iterations = the code under test spins (never a property of a sleeping manager)
        if loop.time() == spin[0]:
            spin[1] += 1
            if spin[1] > 200000:
                raise _Spin()
        else:
            spin[0], spin[1] = loop.time(), 0
        if run_no[0] == 0 and close_iter is not None and loop.iterations == close_iter:
            do_close()
        if run_no[0] == 1 and close_iter2 is not None and loop.iterations == base_iter[0] + close_iter2:
            do_close()
        orig()

    loop._run_once = hooked

    async def main():
        for r in range(runs):
            run_no[0] = r
            if r > 0:
                if idle_close:                      # close() while no connect_loop() is running
                    ev.append(_ev("close", loop.time()))
                    try:
                        cm.close()
                    except Exception as ex:  # noqa: BLE001
                        err[0] = "close:" + type(ex).__name__
                closed[0] = False
                base_iter[0] = loop.iterations
                ev.append(_ev("start", loop.time()))
            lt = asyncio.ensure_future(cm.connect_loop())
            loop.call_later(horizon, do_close)   # always armed: the run must end
            try:
                await lt
            except Exception as ex:  # noqa: BLE001
                err[0] = type(ex).__name__
            ev.append(_ev("returned", loop.time()))
            if r == 0:
                ret_iter[0] = loop.iterations
        await asyncio.sleep(tail)
        ev.append(_ev("end", loop.time(), tasks=ntasks() - 1))

    ret_iter = [0]
    try:
        loop.run_until_complete(main())
    except _Spin:
        err[0] = f"spin: 200000 loop iterations without progress of virtual time at t={loop.time()}"
        ev.append(_ev("end", loop.time(), tasks=99))
    except RuntimeError as ex:  # virtual loop deadlock = nothing scheduled although main has not finished
        err[0] = "deadlock:" + str(ex)[:40]
        ev.append(_ev("end", loop.time(), tasks=99))
    finally:
        its = loop.iterations
        loop._run_once = orig
        try:
            for t in asyncio.all_tasks(loop):
                t.cancel()
            loop.run_until_complete(asyncio.sleep(0))
        except Exception:  # noqa: BLE001
            pass
        loop.close()
        if other is not None:
            other.close()
        if had_dt:
            mc.datetime = saved
    return ev, its, ret_iter[0], err[0]


def trace_of(outcomes, lifetimes, close_iter, cfg, origin, **kw):
    ev, its, ret_it, err = run_scenario(list(outcomes), list(lifetimes), close_iter, cfg, **kw)
    return {"id": stable_id("conn", outcomes, lifetimes, close_iter, cfg, kw), "canary": "", "origin": origin,
            "cfg": {k: cfg[k] for k in ("max_delay", "threshold", "sleep")},
            "script": {"outcomes": list(outcomes), "lifetimes": [-1 if x is None else x for x in lifetimes],
                       "close_iter": -1 if close_iter is None else close_iter, "kw": {k: (-1 if v is None else v) for k, v in kw.items()}},
            "error": err, "events": ev}, its, ret_it


LIFETIMES = [(None,) * 6, (1, 1, 1, 1, 1, 1), (4, 1, None, 2, 2, 2), (0.5, 6, 0.5, 0.5, None, 1), (0, -2, 0, 1, -2, 0)]    # -2: lost before the factory returns
CFGS = [{"max_delay": 4, "threshold": 3, "sleep": 5}, {"max_delay": 60, "threshold": 5, "sleep": 2}, {"max_delay": 1, "threshold": 1, "sleep": 1}]


def _job(args):
    from .core import set_logging
    set_logging(args)
    scripts, every = args
    out = []
    nexec = 0
    for sn, (outcomes, lifetimes, cfg) in enumerate(scripts):
        kw = {"outside": True} if sn % 3 == 1 else ({"sync_close": True} if sn % 3 == 2 else {})   # manager built before its loop runs / transport closing synchronously
        base, its, ret_it = trace_of(outcomes, lifetimes, None, cfg, "enum:noclose", **kw)
        out.append(base)
        nexec += 1
        last = min(ret_it + 2, its)
        ks = range(0, last, every) if every > 0 else []
        for k in ks:
            t, _, _ = trace_of(outcomes, lifetimes, k, cfg, f"enum:close@{k}", **kw)
            out.append(t)
            nexec += 1
    return out, nexec


def _long_job(args):
    from .core import set_logging
    set_logging(args)
    cycles, pattern, cfg = args
    if pattern == "fail_ok_loss":
        outcomes = (["fail", "ok"] * cycles)
        lifetimes = [2] * (2 * cycles)
    elif pattern == "ok_loss":
        outcomes = ["ok"] * cycles
        lifetimes = [7] * cycles
    elif pattern == "fail_run":         # one connection, then a long outage (every attempt fails), then reachable again
        outcomes = ["ok"] + ["fail"] * cycles + ["ok", "fail", "ok"]
        lifetimes = [2] * len(outcomes)
    else:
        outcomes = ["slowok", "fail", "fail"] * (cycles // 3 + 1)
        lifetimes = [6] * len(outcomes)
    horizon = 40.0 * cycles
    t, _, _ = trace_of(outcomes, lifetimes, None, cfg, f"long:{pattern}:{cycles}", horizon=horizon)
    t["script"]["outcomes"] = t["script"]["outcomes"][:6] + ["..."]
    t["script"]["lifetimes"] = t["script"]["lifetimes"][:6]
    t["script"]["long"] = [cycles, pattern]
    return t


def canaries(traces, rng):
    import copy
    out = []
    pool = [t for t in traces if not t["canary"] and any(e["e"] == "attempt" for e in t["events"])]
    rng.shuffle(pool)

    def mk(kind, t):
        c = copy.deepcopy(t)
        c["canary"], c["id"] = kind, f"canary-{kind}-{t['id']}"
        return c
    # attempt moved before its back-off
    for t in pool:
        evs = t["events"]
        idx = [k for k, e in enumerate(evs) if e["e"] == "attempt" and k > 0 and evs[k - 1]["e"] == "attempt_end" and not evs[k - 1]["ok"]
               and not evs[k - 1]["cancelled"] and e["t"] > evs[k - 1]["t"]]
        if idx:
            c = mk("attempt_before_backoff", t)
            c["events"][idx[0]]["t"] = c["events"][idx[0] - 1]["t"]
            out.append(c)
            break
    for t in pool:
        evs = t["events"]
        ci = [k for k, e in enumerate(evs) if e["e"] == "close"]
        if ci:
            c = mk("attempt_after_close", t)
            c["events"].insert(ci[0] + 1, _ev("attempt", evs[ci[0]]["t"] / 1000, 77, tasks=3))
            c["events"].insert(ci[0] + 2, _ev("attempt_end", evs[ci[0]]["t"] / 1000, 77, ok=False))
            out.append(c)
            break
    for t in pool:
        evs = t["events"]
        ok = [k for k, e in enumerate(evs) if e["e"] == "attempt_end" and e["ok"]]
        if ok:
            c = mk("transport_left_open", t)
            i = evs[ok[-1]]["i"]
            c["events"] = [e for e in c["events"] if not (e["e"] in ("tclose", "lost") and e["i"] == i)]
            out.append(c)
            c2 = mk("two_live", t)
            c2["events"].insert(ok[-1] + 1, _ev("attempt_end", evs[ok[-1]]["t"] / 1000, 88, ok=True))
            out.append(c2)
            break
    for t in pool:
        c = mk("too_many_tasks", t)
        for e in c["events"]:
            if e["e"] == "attempt":
                e["tasks"] = 50
        out.append(c)
        c = mk("late_return", t)
        for e in c["events"]:
            if e["e"] == "returned":
                e["t"] += 2000
        for e in c["events"]:
            if e["e"] == "end":
                e["t"] += 2000
        out.append(c)
        break
    return out


def collect(chk: Check, attempts: int, every: int):
    scripts = []
    for outcomes in itertools.product(OUTCOMES, repeat=attempts):
        for li, lifetimes in enumerate(LIFETIMES):
            scripts.append((outcomes, lifetimes, CFGS[(li + len(scripts)) % len(CFGS)]))
    chk.rng.shuffle(scripts)
    nj = 32
    jobs = [(scripts[j::nj], every) for j in range(nj)]
    with mp.Pool(16) as pool:
        res = pool.map(_job, jobs)
    traces = [t for r, _ in res for t in r]
    return traces, sum(n for _, n in res)


def judge(chk: Check, traces, prefixes, what):
    traces = traces + canaries(traces, chk.rng)
    verdicts = chk.judge("conn", "Trace_Conn", traces, what=what)
    for t, v in zip(traces, verdicts):
        if t["canary"]:
            continue
        chk.count(t["id"])
        if t["error"]:
            chk.violation(f"conn-error-{t['error'][:20]}", f"connect_loop raised/deadlocked: {t['error']} in scenario {t['script']}",
                          {"kind": "conn-trace", "trace": t, "verdict": v})
        for fl in v["fails"]:
            if fl["c"] == "shape":
                from .tlc import MachineryError
                raise MachineryError(f"malformed connection trace {t['id']}")
            if fl["c"].startswith(prefixes):
                chk.violation(f"conn-{fl['c']}", f"TLC rejects ConnectionManager trace {t['id']} ({t['origin']}, script {t['script']}): "
                              f"clause {fl['c']} at event {fl['at']}", {"kind": "conn-trace", "trace": t, "verdict": v})


def models(chk: Check):
    import os
    quick = chk.tier == "quick"
    path = os.path.join(chk.rundir, "ConnMgrTasks_run.cfg")
    with open(path, "w") as f:
        f.write("SPECIFICATION Spec\nCONSTANTS\n Fixed = TRUE\n"
                f" MaxAtt = {3 if quick else 4}\n Horizon = {12 if quick else 20}\n SlowLat = 2\n MaxDelay = 4\n BrkThr = 3\n BrkSleep = 3\n"
                f" ModelTaskBound = 3\n MaxRuns = 2\nINVARIANT NoContractViolation\nINVARIANT BoundedTasks\nINVARIANT AllClosed\nINVARIANT NoOrphan\nINVARIANT AlwaysTrying\n"
                "CHECK_DEADLOCK FALSE\n")
    chk.model("conn", "ConnMgrTasks", path, workers=16, coverage=quick, timeout=2400, xmx="12g")
    chk.sensitivity("conn", "ConnMgrTasks", "CONSTANTS\n Fixed = FALSE\n MaxAtt = 3\n Horizon = 12\n SlowLat = 2\n MaxDelay = 4\n BrkThr = 3\n BrkSleep = 3\n"
                    " ModelTaskBound = 3\n MaxRuns = 2\n", "NoContractViolation", what="F8: tasks left pending / transport left open after close() (pinned tree)")
    chk.witnesses("conn", "ConnMgrTasks", "CONSTANTS\n Fixed = TRUE\n MaxAtt = 3\n Horizon = 12\n SlowLat = 2\n MaxDelay = 4\n BrkThr = 3\n BrkSleep = 3\n"
                  " ModelTaskBound = 3\n MaxRuns = 2\n", ["W_ReconnectedAfterLoss", "W_CloseDuringAttempt", "W_CloseDuringBackOff", "W_BreakerTripped",
                                                          "W_BackOffDoubled", "W_SecondRunConnected", "W_ReturnedWithAllClosed"])


def run_c17(chk: Check) -> int:
    quick = chk.tier == "quick"
    models(chk)
    traces, nexec = collect(chk, 3 if quick else 4, 1)
    if quick:
        t4, n4 = collect(chk, 4, 9)
        traces += t4
        nexec += n4
    else:
        t5, n5 = collect(chk, 5, 9)
        traces += t5
        nexec += n5
    validate_against_task_model(chk, every=3 if quick else 1, nscripts=96 if quick else None)
    traces += restart_traces(chk, 60 if quick else 4000)
    cyc = [100, 1000] if quick else [100, 1000, 10000]
    with mp.Pool(8) as pool:
        longs = pool.map(_long_job, [(c, p, CFGS[0]) for c in cyc for p in ("fail_ok_loss", "ok_loss", "mixed")]
                         + [(c, "fail_run", CFGS[k % 3]) for k, c in enumerate([40, 1100, 2100] if quick else [40, 1100, 2100, 5000, 20000])])
    traces += longs
    chk.cov["executions"] = nexec + len(longs)
    chk.cov["reconnect_cycles_max"] = max(cyc)
    judge(chk, traces, ("C17",), "c17-traces")
    t = next(t for t in traces if t["script"]["close_iter"] > 3)
    chk.sample({"script": t["script"], "cfg": t["cfg"], "events": [{k: v for k, v in e.items() if v not in (False, 0) or k in ("t", "e")} for e in t["events"][:12]]})
    chk.assumptions += ["asyncio's scheduling is explored by injecting close() at every iteration of the virtual-time loop for each scripted "
                        "scenario; the TLC model covers arbitrary interleavings of ready tasks", "task bound 8 (DESIGN §8-8)"]
    return chk.finish(rule="model: ConnMgrTasks (tasks between awaits, environment close/loss/outcomes) => ConnMgr contract, exhaustive to "
                           + ("3 attempts / horizon 12 / 2 runs" if quick else "4 attempts / horizon 20 / 2 runs (58.9 M states)") + "; real code on the virtual-time loop: all "
                           "attempt-outcome scripts {ok,fail,slowok,slowfail}^n x 4 lifetime patterns x close() injected at every loop iteration "
                           "(n=3" + (", n=4 sampled every 9th" if quick else ", n=4; n=5 sampled every 25th") + ") plus runs of up to "
                           f"{max(cyc)} reconnect cycles; every event trace judged by TLC's contract monitor; non-trivial = distinct (script, close point)")


def replay_any(chk: Check, rp: dict, prefixes) -> int:
    t = rp["trace"]
    sc = t["script"]
    if "long" in sc:
        nt = _long_job((sc["long"][0], sc["long"][1], dict(t["cfg"])))
    else:
        lifetimes = [None if x == -1 else x for x in sc["lifetimes"]]
        kw = {k: (None if (v == -1 and k in ("close_iter2",)) else v) for k, v in sc.get("kw", {}).items()}
        nt, _, _ = trace_of(sc["outcomes"], lifetimes, None if sc["close_iter"] == -1 else sc["close_iter"], dict(t["cfg"]), "replay", **kw)
    v = chk.judge("conn", "Trace_Conn", [nt], what="replay")[0]
    for fl in v["fails"]:
        if fl["c"].startswith(prefixes):
            chk.violation(f"conn-{fl['c']}", f"still rejected: {fl}", {"kind": "conn-trace", "trace": nt, "verdict": v})
    return chk.finish(rule="replay of one scenario")


def replay_c17(chk, rp):
    return replay_any(chk, rp, ("C17",))


# ----------------------------------------------------------------------------- C18
def backoff_trace(max_delay: int, ops: str) -> dict:
    from han.meter_connection import ExponentialBackOff
    b = ExponentialBackOff()
    b.max_delay = max_delay
    init = b.current_delay_sec
    delays = []
    for o in ops:
        try:
            if o == "f":
                b.failure()
            else:
                b.reset()
            delays.append(int(b.current_delay_sec))
        except Exception:  # noqa: BLE001 - an exception is an observation (no delay reported)
            delays.append(-1)
    return {"id": stable_id("bo", max_delay, ops), "canary": "", "max_delay": max_delay, "init": int(init), "ops": list(ops), "delays": delays}


def run_c18(chk: Check) -> int:
    quick = chk.tier == "quick"
    chk.model("conn", "MC_BackOff", workers=4, coverage=True, timeout=300)
    models(chk)
    # strategy object: all failure/reset sequences of length 14 (prefixes included), selected max_delay values
    traces = []
    L = 12 if quick else 14
    for k, ops in enumerate(itertools.product("fr", repeat=L)):
        traces.append(backoff_trace([1, 2, 3, 5, 60, 3600][k % 6], "".join(ops)))
    for k in range(300 if quick else 3000):
        n = chk.rng.randint(1, 200)
        ops = "".join(chk.rng.choice("fffr") for _ in range(n))
        traces.append(backoff_trace(chk.rng.randint(1, 3600), ops))
    for n in ((40, 1100) if quick else (40, 1100, 2100, 70000)):      # long outages: thousands of failures in a row, then a reset
        traces.append(backoff_trace(60, "f" * n + "r" + "fff"))
    c = dict(traces[5])
    c["id"], c["canary"] = "canary-delay", "delay"
    c["delays"] = list(c["delays"])
    c["delays"][-1] += 1
    traces.append(c)
    verdicts = chk.judge("conn", "Trace_BackOff", traces, what="c18-backoff")
    for t, v in zip(traces, verdicts):
        if t["canary"]:
            continue
        chk.count(t["id"])
        if not v["ok"]:
            chk.violation(f"backoff-{v['clause']}", f"ExponentialBackOff(max_delay={t['max_delay']}) after {''.join(t['ops'][:v['at']])}: "
                          f"reports {t['delays'][v['at'] - 1] if v['at'] else t['init']} (clause {v['clause']})",
                          {"kind": "backoff-trace", "trace": t, "verdict": v})
    # manager pacing: outcome sequences to length 5/6 (8 sampled), loss patterns
    traces2, nexec = collect(chk, 3 if quick else 4, 4 if quick else 2)
    scripts = []
    for k in range(40 if quick else 3000):
        n = chk.rng.randint(5, 8)
        scripts.append((tuple(chk.rng.choice(["fail", "fail", "slowfail", "ok"]) for _ in range(n)),
                        tuple(chk.rng.choice([0.5, 1, 2, 4, None]) for _ in range(n)), chk.rng.choice(CFGS)))
    # scripted: k failures after two quick losses (breaker tripped), then a success and a later loss -- and the mirror cases
    for k in range(1, 7):
        for cfg in CFGS:
            scripts.append((("ok", "ok") + ("fail",) * k + ("ok", "ok", "fail", "ok"), (1, 1) + (None,) * k + (20, 1, None, 3), cfg))
            scripts.append((("fail",) * k + ("ok", "ok", "ok") + ("fail",) * 2 + ("ok",), (None,) * k + (1, 1, 9) + (None,) * 2 + (2,), cfg))
            scripts.append((("ok", "fail", "ok") * 2 + ("fail",) * k + ("ok",), (1, None, 1) * 2 + (None,) * k + (30,), cfg))
    for cfg in CFGS:        # two losses within the threshold on either side of t = 20 s, where the wall clock of a DST zone changes its offset
        g = min(1.4, cfg["threshold"] * 0.6)
        scripts.append((("ok",) * 5, (20 - g / 2, g, 9.0, g, 30), cfg))
        scripts.append((("fail", "ok", "ok", "ok", "fail", "ok"), (None, 19.5 - 1, g, 12, None, 30), cfg))
    for cfg in CFGS:        # losses whose gap is just inside the threshold, at sub-second phases (0.8 -> 5.1 with threshold 5)
        thr = cfg["threshold"]
        for first in (0.8, 0.95, 0.25, 1.0):
            for gap in (thr - 0.7, thr - 0.05, thr - 0.5):
                scripts.append((("ok",) * 6, (first, gap, 7.3, gap, first, 30), cfg))
    with mp.Pool(16) as pool:
        res = pool.map(_job_pacing, [scripts[j::16] for j in range(16)])
    traces2 += [t for r in res for t in r]
    # pacing across a close()/restart: failures, a success, close() while connected, connect_loop() again, failures again
    rs = []
    for k in range(1, 5):
        for cfg in CFGS:
            rs.append((("fail",) * k + ("ok", "fail", "fail", "ok"), (None,) * (k + 4), cfg, None, None, False))
            rs.append((("ok",) + ("fail",) * k + ("ok", "fail", "ok"), (1,) + (None,) * (k + 3), cfg, None, None, False))
    with mp.Pool(16) as pool:
        res = pool.map(_job_restart, [rs[j::8] for j in range(8)])
    traces2 += [t for r in res for t in r]
    traces2 += restart_traces(chk, 40 if quick else 1500)
    chk.cov["executions"] = nexec + len(scripts) + len(rs)
    judge(chk, traces2, ("C18",), "c18-manager")
    t = next(t for t in traces2 if sum(1 for e in t["events"] if e["e"] == "attempt") >= 3)
    chk.sample({"cfg": t["cfg"], "script": t["script"], "attempt_times_ms": [e["t"] for e in t["events"] if e["e"] == "attempt"],
                "failure_times_ms": [e["t"] for e in t["events"] if e["e"] == "attempt_end" and not e["ok"]]})
    chk.sample({"backoff": {"max_delay": traces[3]["max_delay"], "ops": "".join(traces[3]["ops"]), "delays": traces[3]["delays"]}})
    chk.assumptions += ["the manager's wall clock is replaced by the virtual clock by rebinding han.meter_connection.datetime from the "
                        "harness (no source change); scheduling slack 0.5 virtual seconds"]
    return chk.finish(rule=f"strategy: all 2^{L} failure/reset sequences of length {L} (every prefix judged) for max_delay in "
                           "{1,2,3,5,60,3600} + random sequences to 200 with max_delay 1..3600, judged by TLC against min(2^(n-1), max); "
                           "manager: outcome scripts to length 8, loss patterns, three (max_delay, threshold, sleep) configurations, close() "
                           "at sampled iterations, attempt times judged against lower/upper pacing bounds; non-trivial = distinct sequence/script")


def _job_pacing(scripts):
    from .core import set_logging
    set_logging(scripts)
    out = []
    for outcomes, lifetimes, cfg in scripts:
        t, _, _ = trace_of(outcomes, lifetimes, None, cfg, "rand:pacing", horizon=240.0)
        out.append(t)
    return out


def replay_c18(chk, rp):
    if rp.get("kind") == "backoff-trace":
        t = rp["trace"]
        nt = backoff_trace(t["max_delay"], "".join(t["ops"]))
        v = chk.judge("conn", "Trace_BackOff", [nt], what="replay")[0]
        if not v["ok"]:
            chk.violation(f"backoff-{v['clause']}", f"still rejected: {v}", {"kind": "backoff-trace", "trace": nt, "verdict": v})
        return chk.finish(rule="replay")
    return replay_any(chk, rp, ("C18",))


# ----------------------------------------------------------------------------- conformance with the task model (DRIFT level)
TASK_CFG = {"max_delay": 4, "threshold": 3, "sleep": 5}      # must equal the constants of spec/conn/Trace_ConnTasks.cfg


def _job_tasks(args):
    from .core import set_logging
    set_logging(args)
    scripts, every = args
    out = []
    for outcomes, lifetimes in scripts:
        base, its, ret_it = trace_of(outcomes, lifetimes, None, TASK_CFG, "tasks:noclose", horizon=14.0, tail=1.0)
        out.append(base)
        for k in range(0, min(ret_it + 2, its), every):
            t, _, _ = trace_of(outcomes, lifetimes, k, TASK_CFG, f"tasks:close@{k}", horizon=14.0, tail=1.0)
            out.append(t)
    return out


def validate_against_task_model(chk: Check, every: int = 3, nscripts: int | None = None):
    """code -> spec, implementation level: every recorded execution must be a behaviour of ConnMgrTasks (silent internal
    steps allowed, bounded by the next logged time stamp).  A rejection is DRIFT, never a VIOLATION."""
    import json
    import os
    from . import tlc
    scripts = [(o, l) for o in itertools.product(OUTCOMES, repeat=3) for l in ((None,) * 8, (1,) * 8, (4, 1, None, 2, 2, 2, 2, 2), (2, 6, 1, 1, None, 1, 1, 1))]
    chk.rng.shuffle(scripts)
    if nscripts:
        scripts = scripts[:nscripts]
    with mp.Pool(16) as pool:
        res = pool.map(_job_tasks, [(scripts[j::32], every) for j in range(32)])
    traces = []
    seen = set()
    for r in res:
        for t in r:
            evs = [e for e in t["events"] if e["e"] != "end"]
            key = json.dumps(evs)
            if key in seen or t["error"]:
                continue
            seen.add(key)
            traces.append({"id": t["id"], "script": t["script"], "events": evs})
    # canary: an attempt moved one second earlier cannot be explained by the task model
    import copy
    can = None
    for t in traces:
        idx = [k for k, e in enumerate(t["events"]) if e["e"] == "attempt" and e["t"] >= 1000]
        if idx:
            can = copy.deepcopy(t)
            can["id"] = "canary-early-attempt"
            for e in can["events"][idx[0]:idx[0] + 1]:
                e["t"] -= 1000
            break
    shards = [traces[j::16] for j in range(16)]
    if can:
        shards[0] = shards[0] + [can]

    def one(args):
        k, sh = args
        tf = os.path.join(chk.rundir, f"tasktraces-{k}.ndjson")
        of = os.path.join(chk.rundir, f"taskverdicts-{k}.json")
        with open(tf, "w") as f:
            for t in sh:
                f.write(json.dumps(t, separators=(",", ":")) + "\n")
        st = tlc.run_model("conn", "Trace_ConnTasks", "Trace_ConnTasks.cfg", rundir=chk.rundir, workers=1, coverage=False, timeout=1500,
                           env={"TRACE_FILE": tf, "OUT_FILE": of}, xmx="3g", must_pass=False)
        if not os.path.exists(of):
            raise tlc.MachineryError(f"Trace_ConnTasks produced no report (shard {k}): {st.get('violated')} see {st['log']}")
        return json.load(open(of)), st

    from concurrent.futures import ThreadPoolExecutor
    with ThreadPoolExecutor(max_workers=16) as ex:
        outs = list(ex.map(one, [(k, sh) for k, sh in enumerate(shards) if sh]))
    acc = rej = 0
    states = 0
    for rep, st in outs:
        states += st["distinct"]
        for r in rep:
            if r["id"] == "canary-early-attempt":
                if r["reached"] >= r["length"]:
                    raise tlc.MachineryError("task-model canary (attempt moved one second earlier) was accepted")
                chk.cov["canaries"]["planted"] += 1
                chk.cov["canaries"]["rejected"] += 1
                continue
            if r["reached"] >= r["length"]:
                acc += 1
            else:
                rej += 1
                t = next(t for t in traces if t["id"] == r["id"])
                chk.drift(f"ConnectionManager trace {r['id']} (script {t['script']}) is not a behaviour of the task model ConnMgrTasks: "
                          f"matched {r['reached']} of {r['length']} events, next event {t['events'][r['reached']] if r['reached'] < len(t['events']) else None}")
    chk.cov["task_model_validation"] = {"traces": acc + rej, "accepted": acc, "rejected_as_drift": rej, "tlc_states": states}
    chk.cov["traces_validated_against_impl"] += acc + rej
    return acc, rej


def _job_restart(args):
    from .core import set_logging
    set_logging(args)
    out = []
    for outcomes, lifetimes, cfg, k1, k2, idle in args:
        t, _, _ = trace_of(outcomes, lifetimes, k1, cfg, f"restart:close@{k1},{k2},idle={idle}", horizon=12.0, runs=2, close_iter2=k2, idle_close=idle)
        out.append(t)
    return out


def restart_traces(chk: Check, n: int):
    """connect_loop() called a second time on the same manager after close() (and close() between the two runs)."""
    rng = chk.rng
    jobs = []
    for _ in range(n):
        m = rng.randint(2, 6)
        jobs.append((tuple(rng.choice(OUTCOMES) for _ in range(m)), tuple(rng.choice([None, 1, 2, 4]) for _ in range(m)), rng.choice(CFGS),
                     rng.choice([None, rng.randint(0, 40)]), rng.choice([None, rng.randint(0, 40)]), rng.random() < 0.25))
    with mp.Pool(16) as pool:
        res = pool.map(_job_restart, [jobs[j::16] for j in range(16)])
    return [t for r in res for t in r]
