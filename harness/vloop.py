import asyncio, selectors, heapq
class _Sel(selectors.BaseSelector):
    def __init__(s, loop): s.loop=loop; s._m={}
    def register(s, f, e, d=None):
        k=selectors.SelectorKey(f, f if isinstance(f,int) else f.fileno(), e, d); s._m[k.fd]=k; return k
    def unregister(s, f):
        fd = f if isinstance(f,int) else f.fileno(); return s._m.pop(fd)
    def select(s, timeout=None):
        if timeout is None:
            raise RuntimeError("deadlock: nothing scheduled")
        if timeout>0: s.loop._vt += timeout
        return []
    def get_map(s): return s._m
class VLoop(asyncio.SelectorEventLoop):
    def __init__(s):
        s._vt=0.0
        super().__init__(selector=_Sel(s))
        s.iterations=0
    def time(s): return s._vt
    def _run_once(s):
        s.iterations+=1
        super()._run_once()
