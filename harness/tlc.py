"""Run TLC (model checking, simulation, batch trace judging) and parse what it prints.

Everything TLC-related goes through here so that every run is wrapped in a timeout,
gets its own metadir, and has its numbers (states, distinct states, depth, per-action
coverage) copied into the evidence file.
"""
from __future__ import annotations

import itertools
import json
import os
import re
import shutil
import subprocess
import time
from concurrent.futures import ThreadPoolExecutor

VERIF = os.path.dirname(os.path.dirname(os.path.abspath(__file__)))
SPEC = os.path.join(VERIF, "spec")
JAR = "/opt/veriftools/tla/tla2tools.jar:/opt/veriftools/tla/CommunityModules-deps.jar"


_SEQ = itertools.count(1)     # unique run tags: concurrent runs of one module must never share a metadir or a log file


class MachineryError(Exception):
    """TLC crashed, timed out, or a model run that must pass did not."""


def _library() -> str:
    return os.pathsep.join(
        sorted(os.path.join(SPEC, d) for d in os.listdir(SPEC) if os.path.isdir(os.path.join(SPEC, d)))
    )


def _java(xmx: str, props: dict | None = None) -> list[str]:
    cmd = ["java", "-XX:+UseParallelGC", f"-Xmx{xmx}", "-Xss256m", f"-DTLA-Library={_library()}"]
    for k, v in (props or {}).items():
        cmd.append(f"-D{k}={v}")
    cmd += ["-cp", JAR, "tlc2.TLC"]
    return cmd


_RE_STATES = re.compile(r"(\d+) states generated, (\d+) distinct states found, (\d+) states left")
_RE_DEPTH = re.compile(r"The depth of the complete state graph search is (\d+)")
_RE_INV = re.compile(r"Error: Invariant (\S+) is violated")
_RE_PROP = re.compile(r"Error: (?:Action property|Temporal properties?) ?(\S*)")
_RE_COV = re.compile(r"^<(\w+) line (\d+), col \d+ to line \d+, col \d+ of module (\w+)(?: \([\d ]+\))?>: (\d+):(\d+)")
_RE_COV_INIT = re.compile(r"^<(\w+) line (\d+), col \d+ to line \d+, col \d+ of module (\w+)>: (\d+)$")


def run_model(
    subdir: str,
    module: str,
    cfg: str | None = None,
    *,
    rundir: str,
    workers: int = 16,
    timeout: int = 600,
    coverage: bool = True,
    simulate: str | None = None,
    depth: int | None = None,
    seed: int | None = None,
    xmx: str = "8g",
    env: dict | None = None,
    extra: list[str] | None = None,
    must_pass: bool = True,
    dfs_queue: bool = False,
) -> dict:
    """Model-check spec/<subdir>/<module>.tla with <cfg>. Returns stats dict."""
    d = os.path.join(SPEC, subdir)
    cfg = cfg or module + ".cfg"
    tag = f"{module}-{os.path.splitext(os.path.basename(cfg))[0]}-{next(_SEQ)}-{os.getpid()}"
    meta = os.path.join(rundir, "meta-" + tag)
    os.makedirs(meta, exist_ok=True)
    props = {}
    if dfs_queue:
        props["tlc2.tool.queue.IStateQueue"] = "StateDeque"
    cmd = _java(xmx, props) + ["-workers", str(workers), "-metadir", meta, "-noGenerateSpecTE"]
    if coverage:
        cmd += ["-coverage", "1"]
    if simulate:
        cmd += ["-simulate", simulate]
    if depth is not None:
        cmd += ["-depth", str(depth)]
    if seed is not None:
        cmd += ["-seed", str(seed)]
    cmd += extra or []
    cmd += ["-config", cfg, module + ".tla"]
    e = dict(os.environ)
    e.update(env or {})
    t0 = time.time()
    try:
        p = subprocess.run(cmd, cwd=d, env=e, capture_output=True, text=True, timeout=timeout)
    except subprocess.TimeoutExpired as ex:
        raise MachineryError(f"TLC timeout after {timeout}s: {module} {cfg}") from ex
    finally:
        shutil.rmtree(meta, ignore_errors=True)
    out = p.stdout + p.stderr
    logp = os.path.join(rundir, f"tlc-{tag}.log")
    with open(logp, "w") as f:
        f.write(" ".join(cmd) + "\n" + out)
    st = {"module": module, "cfg": cfg, "wall_s": round(time.time() - t0, 2), "log": logp,
          "states": 0, "distinct": 0, "depth": 0, "ok": False, "violated": None, "actions": {}}
    for m in _RE_STATES.finditer(out):
        st["states"], st["distinct"] = int(m.group(1)), int(m.group(2))
    m = _RE_DEPTH.search(out)
    if m:
        st["depth"] = int(m.group(1))
    m = _RE_INV.search(out)
    if m:
        st["violated"] = m.group(1)
    elif "is violated" in out or "Error:" in out:
        m2 = re.search(r"Error: (.*)", out)
        st["violated"] = m2.group(1)[:200] if m2 else "error"
    for line in out.splitlines():
        m = _RE_COV.match(line)
        if m:
            a = st["actions"].setdefault(m.group(1), {"distinct": 0, "taken": 0})
            a["distinct"] += int(m.group(4))
            a["taken"] += int(m.group(5))
    finished = "Model checking completed. No error has been found." in out or (
        simulate is not None and st["violated"] is None and p.returncode in (0,)
    )
    st["ok"] = bool(finished and st["violated"] is None)
    st["returncode"] = p.returncode
    if must_pass and not st["ok"]:
        tail = "\n".join(out.splitlines()[-40:])
        raise MachineryError(f"TLC model run failed: {module} {cfg}: violated={st['violated']} rc={p.returncode}\n{tail}")
    return st


def _judge_one(args) -> tuple[list, float]:
    subdir, module, trace_file, out_file, rundir, xmx, timeout, idx = args
    d = os.path.join(SPEC, subdir)
    meta = os.path.join(rundir, f"meta-j-{module}-{idx}")
    os.makedirs(meta, exist_ok=True)
    cfg = os.path.join(rundir, f"empty-{module}-{idx}.cfg")
    with open(cfg, "w") as f:
        f.write("")
    cmd = _java(xmx) + ["-workers", "1", "-metadir", meta, "-noGenerateSpecTE", "-config", cfg, module + ".tla"]
    e = dict(os.environ)
    e["TRACE_FILE"] = trace_file
    e["OUT_FILE"] = out_file
    t0 = time.time()
    try:
        p = subprocess.run(cmd, cwd=d, env=e, capture_output=True, text=True, timeout=timeout)
    except subprocess.TimeoutExpired as ex:
        raise MachineryError(f"TLC judge timeout after {timeout}s: {module} shard {idx}") from ex
    finally:
        shutil.rmtree(meta, ignore_errors=True)
    if not os.path.exists(out_file):
        tail = "\n".join((p.stdout + p.stderr).splitlines()[-30:])
        raise MachineryError(f"TLC judge produced no verdicts: {module} shard {idx} rc={p.returncode}\n{tail}")
    with open(out_file) as f:
        verdicts = json.load(f)
    return verdicts, time.time() - t0


def judge(subdir: str, module: str, traces: list[dict], *, rundir: str, shards: int = 16,
          xmx: str = "3g", timeout: int = 900) -> tuple[list[dict], dict]:
    """Have TLC judge every trace (ASSUME-only module reading TRACE_FILE, writing OUT_FILE).

    Returns (verdicts in the order of `traces`, stats). Every trace must carry "id"."""
    if not traces:
        return [], {"tlc_judge_wall_s": 0.0, "shards": 0}
    shards = max(1, min(shards, len(traces)))
    # balance shards by approximate size
    sized = sorted(range(len(traces)), key=lambda i: -len(json.dumps(traces[i])) if len(traces) < 20000 else 0)
    buckets: list[list[int]] = [[] for _ in range(shards)]
    for n, i in enumerate(sized):
        buckets[n % shards].append(i)
    jobs = []
    for k, b in enumerate(buckets):
        tf = os.path.join(rundir, f"traces-{module}-{k}-{id(traces)%9973}.ndjson")
        of = os.path.join(rundir, f"verdicts-{module}-{k}-{id(traces)%9973}.json")
        with open(tf, "w") as f:
            for i in b:
                f.write(json.dumps(traces[i], separators=(",", ":")) + "\n")
        jobs.append((subdir, module, tf, of, rundir, xmx, timeout, k))
    t0 = time.time()
    with ThreadPoolExecutor(max_workers=shards) as ex:
        results = list(ex.map(_judge_one, jobs))
    verdicts: list[dict | None] = [None] * len(traces)
    for b, (vs, _) in zip(buckets, results):
        if len(vs) != len(b):
            raise MachineryError(f"TLC judge returned {len(vs)} verdicts for {len(b)} traces ({module})")
        for i, v in zip(b, vs):
            if str(v.get("id")) != str(traces[i]["id"]):
                raise MachineryError(f"verdict id mismatch {v.get('id')} vs {traces[i]['id']}")
            verdicts[i] = v
    for j in jobs:
        for pth in (j[2], j[3]):
            try:
                os.remove(pth)
            except OSError:
                pass
    return verdicts, {"tlc_judge_wall_s": round(time.time() - t0, 2), "shards": shards}


def sany(path: str) -> bool:
    cmd = ["java", f"-DTLA-Library={_library()}", "-cp", JAR, "tla2sany.SANY", os.path.basename(path)]
    p = subprocess.run(cmd, cwd=os.path.dirname(path), capture_output=True, text=True, timeout=120)
    out = p.stdout + p.stderr
    return p.returncode == 0 and "Semantic errors" not in out and "Parse Error" not in out and "***Parse" not in out and "Fatal" not in out


def export(subdir: str, module: str, *, rundir: str, env: dict | None = None, xmx: str = "3g", timeout: int = 300):
    """Evaluate an ASSUME-only generator module that writes JSON to IOEnv.OUT_FILE; return the parsed JSON."""
    d = os.path.join(SPEC, subdir)
    tag = f"{module}-{next(_SEQ)}-{os.getpid()}"
    meta = os.path.join(rundir, "meta-x-" + tag)
    os.makedirs(meta, exist_ok=True)
    cfg = os.path.join(rundir, f"empty-x-{tag}.cfg")
    open(cfg, "w").close()
    out_file = os.path.join(rundir, f"export-{tag}.json")
    cmd = _java(xmx) + ["-workers", "1", "-metadir", meta, "-noGenerateSpecTE", "-config", cfg, module + ".tla"]
    e = dict(os.environ)
    e.update(env or {})
    e["OUT_FILE"] = out_file
    try:
        p = subprocess.run(cmd, cwd=d, env=e, capture_output=True, text=True, timeout=timeout)
    except subprocess.TimeoutExpired as ex:
        raise MachineryError(f"TLC export timeout: {module}") from ex
    finally:
        shutil.rmtree(meta, ignore_errors=True)
    if not os.path.exists(out_file):
        tail = "\n".join((p.stdout + p.stderr).splitlines()[-30:])
        raise MachineryError(f"TLC export produced nothing: {module} rc={p.returncode}\n{tail}")
    with open(out_file) as f:
        data = json.load(f)
    os.remove(out_file)
    return data
