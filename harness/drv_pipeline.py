"""Growth (DESIGN §12): the receive path as a user wires it — connection factory (default readers) -> protocol ->
queue -> AutoDecoder — recorded once and judged by the existing TLC contracts through projections:

  message protocol   the pipeline "is a reader": Trace_Hdlc / Trace_P1 in clean mode (plan -> wire re-derived by TLC,
                     every planned message delivered once, in order, fields exact)
  payload protocol   per data_received() call, the payload queue must be Forward("payload", messages the message
                     protocol enqueued in the same call of the same stream)           (Trace_Pipeline, ProtoContract)
  decoder            every queue element goes through ONE AutoDecoder per connection; the dictionaries are judged
                     by Trace_Cosem (Meaning of the planned message) / Trace_P1Dec (the history paths)

Nothing here is one of the listed properties (the factories' default reader list is not named by any statement), so a
rejection is reported as DRIFT, never as VIOLATION.
"""
from __future__ import annotations

import asyncio
import copy
import multiprocessing as mp
import random
import sys
import types

from . import drv_cosem as C
from . import drv_hdlc as H
from . import drv_p1 as P
from . import drv_p1dec as D
from .core import Check, chunkings, split, stable_id

DEFAULT_CFG = (False, True)     # HdlcFrameReader(use_octet_stuffing=False, use_abort_sequence=True), then ModeDReader()


class _Transport(asyncio.BaseTransport):
    def __init__(self):
        super().__init__()
        self.closed = 0

    def close(self):
        self.closed += 1

    def is_closing(self):
        return self.closed > 0


class _Loop:
    """Only what the TCP factory touches."""

    async def create_connection(self, protocol_factory, *a, **kw):
        p = protocol_factory()
        t = _Transport()
        p.connection_made(t)
        return t, p


async def _serial(loop, protocol_factory, *a, **kw):
    p = protocol_factory()
    t = _Transport()
    p.connection_made(t)
    return t, p


def connect(factory: str, variant: str, queue):
    """Create transport and protocol through the library's own factory function (readers=None: the defaults)."""
    if factory == "tcp":
        import han.tcp_connection_factory as f
        fn = f.create_tcp_message_connection if variant == "message" else f.create_tcp_message_payload_connection
        co = fn(queue, _Loop(), None, "meter.example", 2001)
    else:
        if "serial_asyncio" not in sys.modules:     # pyserial-asyncio is not installed here; the factory only needs this one function
            sys.modules["serial_asyncio"] = types.SimpleNamespace(create_serial_connection=_serial)
        import han.serial_connection_factory as f
        fn = f.create_serial_message_connection if variant == "message" else f.create_serial_message_payload_connection
        co = fn(queue, _Loop(), None, url="/dev/ttyUSB0")
    return asyncio.get_event_loop().run_until_complete(co)


class PipeReader:
    """The message-protocol pipeline seen as a reader: read(chunk) = data_received(chunk), then whatever reached the queue."""

    def __init__(self, factory: str, variant: str):
        self.q = asyncio.Queue()
        self.t, self.p = connect(factory, variant, self.q)
        self.per_call: list[list] = []

    is_in_hunt_mode = False
    unescape_next = False

    def read(self, chunk: bytes) -> list:
        self.p.data_received(chunk)
        out = []
        while not self.q.empty():
            out.append(self.q.get_nowait())
        self.per_call.append(out)
        return out


def _cosem_stream(rng: random.Random, base: list[dict]):
    """A clean HDLC stream (default reader configuration) of genuine COSEM messages; returns plan, wire, abstract messages."""
    plan, msgs = [H.item_flags(rng.choice([1, 2]))], []
    meter = rng.choice(["aidon", "kaifa", "kamstrup"])          # one meter per connection (C12: same meter, same form)
    base = [m for m in base if m["meter"] == meter]
    for _ in range(rng.randint(2, 6)):
        for _try in range(30):
            m = C.randomise(rng, rng.choice(base))
            if m["form"] != "frame":
                m = copy.deepcopy(m)
                m["form"] = "frame"
                if m["meter"] == "kamstrup" or (m["meter"] == "kaifa" and m.get("layout") == "pos"):
                    if m["apdu"]["kind"] == "null":
                        continue
            try:
                b = C.encode(m)
            except Exception:  # noqa: BLE001
                continue
            it = H.item_frame(rng, sizes=[0])
            it["info"] = list(b)
            if len(b) <= 2030 and H.in_domain_c02(DEFAULT_CFG, it):
                plan += [it, H.item_flags(rng.choice([1, 1, 2]))]
                msgs.append((m, b))
                break
    return plan, H.plan_wire(DEFAULT_CFG, plan), msgs


def _job(args):
    from .core import set_logging
    set_logging(args)
    seed, n, base = args
    rng = random.Random(seed)
    loop = asyncio.new_event_loop()
    asyncio.set_event_loop(loop)
    from han.autodecoder import AutoDecoder
    out = {"hdlc": [], "p1": [], "pipe": [], "cosem": [], "p1dec": []}
    try:
        for k in range(n):
            factory = ["tcp", "serial"][k % 2]
            if k % 3 != 2:
                plan, wire, msgs = _cosem_stream(rng, base)
                if not msgs:
                    continue
                cuts = chunkings(rng, len(wire), 1)[-1]
                chunks = split(wire, cuts)
                rm = PipeReader(factory, "message")
                run = H.record_run(DEFAULT_CFG, chunks, reader=rm)
                H.add_witness(DEFAULT_CFG, run)
                out["hdlc"].append({"id": stable_id("pipe-h", wire.hex(), cuts, factory), "canary": "", "origin": f"pipeline:{factory}:message",
                                    "cfg": {"stuffing": False, "abort": True}, "mode": "clean", "plan": plan, "runs": [run], "nodrift": True})
                rp = PipeReader(factory, "payload")
                for ch in chunks:
                    rp.read(ch)
                out["pipe"].append(_pipe_record(rm, rp, f"{factory}:hdlc", wire, cuts))
                # one decoder per connection, fed from the queue in order
                decm, decp = AutoDecoder(), AutoDecoder()
                qm = [x for c in rm.per_call for x in c]
                qp = [x for c in rp.per_call for x in c]
                for j, (m, b) in enumerate(msgs):
                    for via, got in (("message", _dec(decm.decode_message, qm[j], m["meter"]) if j < len(qm) else None),
                                     ("payload", _dec(decp.decode_message_payload, qp[j], m["meter"]) if j < len(qp) else None)):
                        if got is None:
                            continue
                        t = C.record(m, b, f"pipeline:{factory}:{via}", with_other=False)
                        t["got"] = got
                        t["id"] = stable_id("pipe-c", t["id"], via, factory, j)
                        out["cosem"].append(t)
            else:
                blocks, plan = [], []
                for j in range(rng.randint(2, 5)):
                    block = D.rand_block(rng)
                    text = D.render(block, b"\r\n")
                    ident = P.rand_ident(rng)
                    if len(text) < 2 or len(text) > 4000:
                        continue
                    blocks.append((block, text, ident))
                    plan.append({"k": "readout", "ident": list(ident), "lines": [list(l) for l in text[:-2].split(b"\r\n")],
                                 "ck": "ok" if j % 2 else "none", "o": [], "cut": 0})
                if not plan:
                    continue
                wire = P.plan_wire(plan)
                cuts = chunkings(rng, len(wire), 1)[-1]
                chunks = split(wire, cuts)
                rm = PipeReader(factory, "message")
                run = P.record_run(chunks, reader=rm)
                out["p1"].append({"id": stable_id("pipe-p", wire.hex(), cuts, factory), "canary": "", "origin": f"pipeline:{factory}:message",
                                  "mode": "clean", "plan": plan, "runs": [run], "nodrift": True})
                rp = PipeReader(factory, "payload")
                for ch in chunks:
                    rp.read(ch)
                out["pipe"].append(_pipe_record(rm, rp, f"{factory}:p1", wire, cuts))
                decm, decp = AutoDecoder(), AutoDecoder()
                qm = [x for c in rm.per_call for x in c]
                qp = [x for c in rp.per_call for x in c]
                for j, (block, text, ident) in enumerate(blocks):
                    if j >= len(qm) or j >= len(qp):
                        break
                    t = D.record(block, "crlf", text, ident, f"pipeline:{factory}")
                    t["automsg"] = D.call(decm.decode_message, qm[j], twice=False)
                    t["autoh"] = D.call(decp.decode_message_payload, qp[j], twice=False)
                    if t["autoh"]["raised"] == "returned NoneType":
                        t["autoh"]["raised"] = "None"
                    t["id"] = stable_id("pipe-d", t["id"], factory, j)
                    out["p1dec"].append(t)
    finally:
        asyncio.set_event_loop(None)
        loop.close()
    return out


def _dec(fn, x, meter):
    try:
        d = fn(x)
        if not isinstance(d, dict):
            return {"raised": f"returned {type(d).__name__}", "entries": []}
        return {"raised": "", "entries": C.entries(d, C.PLACES[meter])}
    except Exception as ex:  # noqa: BLE001
        return {"raised": type(ex).__name__, "entries": []}


def _pipe_record(rm: PipeReader, rp: PipeReader, origin: str, wire: bytes, cuts) -> dict:
    tab: dict = {}

    def pid(b) -> int:
        return tab.setdefault(bytes(b), len(tab) + 1)

    calls = []
    for cm, cp in zip(rm.per_call, rp.per_call):
        msgs = []
        for x in cm:
            try:
                pl, v = x.payload, bool(x.is_valid)
            except Exception:  # noqa: BLE001
                pl, v = None, False
            msgs.append({"valid": v, "pk": "none" if pl is None else ("empty" if len(pl) == 0 else "data"), "pid": pid(pl or b"")})
        calls.append({"msgs": msgs, "payq": [pid(x) if isinstance(x, (bytes, bytearray)) else 0 for x in cp]})
    return {"id": stable_id("pipe", origin, wire.hex(), cuts), "canary": "", "origin": origin, "calls": calls}


def pipeline_part(chk: Check) -> None:
    quick = chk.tier == "quick"
    base = []
    for meter in ("aidon", "kaifa", "kamstrup"):
        base += [m for _, m, _ in C.captured(meter)]
    with mp.Pool(16) as pool:
        res = pool.map(_job, [(chk.seed * 1000 + 130 + i, 6 if quick else 120, base) for i in range(16)])
    agg = {k: [t for r in res for t in r[k]] for k in ("hdlc", "p1", "pipe", "cosem", "p1dec")}
    # canary for the new judge: a payload missing from the payload queue
    can = next((copy.deepcopy(t) for t in agg["pipe"] if any(c["payq"] for c in t["calls"])), None)
    if can:
        for c in can["calls"]:
            if c["payq"]:
                c["payq"].pop()
                break
        can["canary"], can["id"] = "payload_missing", "canary-pipe"
        agg["pipe"].append(can)
    n = {k: len(v) for k, v in agg.items()}
    chk.cov["pipeline"] = n
    for sub, mod, key in (("hdlc", "Trace_Hdlc", "hdlc"), ("p1", "Trace_P1", "p1"), ("proto", "Trace_Pipeline", "pipe"),
                          ("cosem", "Trace_Cosem", "cosem"), ("p1", "Trace_P1Dec", "p1dec")):
        if not agg[key]:
            continue
        verdicts = chk.judge(sub, mod, agg[key], what=f"pipeline-{key}", shards=8)
        for t, v in zip(agg[key], verdicts):
            if t["canary"] or v["ok"]:
                continue
            cl = v.get("fails") or v.get("clause")
            chk.drift(f"pipeline ({t.get('origin', key)}): {mod} rejects {t['id']}: {str(cl)[:200]}")
