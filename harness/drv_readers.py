"""Checks that span both readers: C14 (never raise), C16 (resynchronise), C19 (bounded memory)."""
from __future__ import annotations

import gc
import multiprocessing as mp
import random
import sys
import types

from . import drv_hdlc as H
from . import drv_p1 as P
from .core import Check, chunkings, split, stable_id


# ----------------------------------------------------------------------------- C16
def run_c16(chk: Check) -> int:
    quick = chk.tier == "quick"
    H.run_models(chk, ["Resync"])
    P.run_models(chk, ["Resync"])
    chk.sensitivity("p1", "MC_ModeDReader", "CONSTANTS\n MaxSegs = 3\n GuardMax = 14\n Pinned = TRUE\n", "Resync", what="F5: pinned P1 buffer handling")
    s = chk.seed * 1000 + 16
    ht = H.pmap(H._mk_resync, [(s + i, 9 if quick else 90, 3, False) for i in range(16)])
    H.judge_and_harvest(chk, ht, ("C16",), "c16-hdlc")
    pt = P.pmap(P._mk_resync, [(s + 100 + i, 6 if quick else 48) for i in range(16)])
    pt += P.guard_sweep_traces(chk.rng)
    P.judge_and_harvest(chk, pt, ("C16",), "c16-p1")
    t = ht[0]
    chk.sample({"reader": "hdlc", "cfg": t["cfg"], "origin": t["origin"], "noise": bytes(t["plan"][0]["o"][:24]).hex(),
                "suffix_frames": len([i for i in t["plan"] if i["k"] == "frame"]),
                "delivered_valid": sum(1 for c in t["runs"][0]["calls"] for f in c["frames"] if f["valid"])})
    t = pt[0]
    chk.sample({"reader": "p1", "origin": t["origin"], "noise": bytes(t["plan"][0]["o"][:40]).decode("latin1"),
                "suffix_readouts": len([i for i in t["plan"] if i["k"] == "readout"]), "delivered": P.nreadouts(t)})
    chk.assumptions += ["'delimited as on a real line': HDLC suffix frames separated by one or two flags, P1 readouts back to back",
                        "suffix messages are pairwise distinct so that 'delivered' can be matched by content (checked by TLC)"]
    return chk.finish(rule="models: from every reachable reader state of the bounded HDLC and P1 models, clean suffix => all required messages "
                           "delivered; traces: noise prefix kinds " + ",".join(H.NOISE_KINDS) + " (HDLC, 4 configurations) and "
                           + ",".join(P.P1_NOISE) + " (P1) followed by 2..14 clean messages, >=3 chunkings each; TLC verifies the plan and "
                           "that the required messages (stuffing/P1: all but the first; no stuffing: flag-free frames starting more than "
                           "2047 + own length after the noise) occur in order among the valid deliveries; non-trivial = distinct plan")


def replay_c16(chk: Check, rp: dict) -> int:
    if rp.get("kind") == "hdlc-trace":
        return H.replay_trace(chk, rp, ("C16",))
    return P.replay_any(chk, rp, ("C16",))


# ----------------------------------------------------------------------------- C14
def _noise14(rng: random.Random, kind: str) -> bytes:
    n = rng.choice([1, 2, 5, 20, 80, 300])
    if kind == "uniform":
        return bytes(rng.randrange(256) for _ in range(n))
    if kind == "structural":
        return bytes(rng.choice(b"/!\n\r\x7e\x7d\x80\xff0123456789abcdefABCDEFzxG \\(" + bytes([rng.randrange(256)])) for _ in range(n))
    if kind == "p1ish":
        parts = [b"/", b"!", b"\n", b"\r\n", b"/ABC5", b"/ABC5id\r\n", b"!zz\r\n", b"!\xff\r\n", b"!12AB\r\n", b"/AB\xe65\r\n", b"\xff",
                 b"1-0:1.8.0(1*kWh)\r\n", b"/ABC5x!y\r\n", b"!+1_0\r\n", b"!0x\r\n", b"! \r\n", b"!A0\r\n", b"!A\r\n", b"!ABC\r\n", b"!ABCDE\r\n", b"!A0 \r\n", b"/ABC5id\r\n1-0:1.8.0(1*kWh)\r\n", b"\x1c/ABC5\x1d\r\n", b"/ABC5\\", b" \t"]
        return b"".join(rng.choice(parts) for _ in range(rng.randint(1, 12)))
    if kind == "hdlcish":
        parts = [b"\x7e", b"\x7d", b"\x7e\xa0", b"\xa0\x07\x01\x03\x13", b"\x7d\x7e", b"\x7e\x7d", b"\x5e", b"\xff", b"\x00",
                 b"\x7e\xa0\x0b\x01\x03\x13\x08\xb7\x07\x08\x9e\x3d\x55", bytes([rng.randrange(256)])]
        return b"".join(rng.choice(parts) for _ in range(rng.randint(1, 16)))
    return b"\x00"


KINDS14 = ["uniform", "structural", "p1ish", "hdlcish"]
BOUNDARY_OCTETS = [0x00, 0x0A, 0x0D, 0x1F, 0x21, 0x2F, 0x7F, 0x80, 0x81, 0xFF]


def almost_readouts(rng: random.Random, k: int) -> bytes:
    """Well-formed readouts with ONE octet replaced by a boundary value (in the identification line, the data block or the end line),
    the checksum recomputed / absent / stale: everything else about the message checks out, so the accessors go all the way."""
    out = b""
    for j in range(3):
        ident = P.rand_ident(rng)
        lines = [P.rand_line(rng) for _ in range(rng.choice([1, 2, 4]))]
        body = bytearray(ident + b"\r\n" + b"".join(l + b"\r\n" for l in lines) + b"!")
        lo = [1, len(ident) + 2, len(ident) + 2][j]            # where the replaced octet may be: anywhere / data block / data block
        pos = rng.randrange(lo, len(body) - 1) if len(body) - 1 > lo else lo
        body[pos] = BOUNDARY_OCTETS[(k + j) % len(BOUNDARY_OCTETS)]
        mode = (k // len(BOUNDARY_OCTETS) + j) % 3
        c = P.crc16(bytes(body))
        out += bytes(body) + (b"" if mode == 0 else (b"%04X" % c) if mode == 1 else b"1A2B") + b"\r\n"
    return out


def longrun(rng: random.Random, reader: str) -> bytes:
    """Long runs of one octet / one short unit (an idle or stuck line), long enough for anything that recurses or re-scans per octet."""
    n = rng.choice([1000, 1100, 1500, 2040, 2100])
    if reader == "hdlc":
        unit = rng.choice([b"\x00", b"\x02", b"\xfe", b"\x7d", b"\x01", b"\xff", b"\xa0", b"\x7d\x5e", b"\x00\x02"])
        return b"\x7e" + (unit * n)[:n] + rng.choice([b"", b"\x7e"])
    unit = rng.choice([b"(", b")", b"*", b"/", b"!", b"\r", b"(1)", b"1.8.0(", b"/A", b"\\2"])
    return rng.choice([b"", b"/ABC5id\r\n", b"/"]) + (unit * n)[:n * 2] + rng.choice([b"", b"\r\n", b"\r\n!\r\n"])


def almost_frames(rng: random.Random, cfg) -> bytes:
    """Frames damaged in one place with everything else right (truncated after the header check, wrong length with good checks, ...)."""
    out = b""
    for _ in range(3):
        f = H.item_bytes(H.item_frame(rng, maxinfo=30))
        for v in rng.sample(H.damaged_variants(rng, f), 3):
            out += b"\x7e" + (H.stuff(v) if cfg[0] else v) + b"\x7e"
    return out


def _mk_c14_hdlc(args):
    from .core import set_logging
    set_logging(args)
    seed, n = args
    rng = random.Random(seed)
    out = []
    for k in range(n):
        cfg = H.CFGS[k % 4]
        kind = (KINDS14 + ["almost", "longrun"])[(k // 4) % 6]
        plan = [H.item_noise(almost_frames(rng, cfg) if kind == "almost" else longrun(rng, "hdlc") if kind == "longrun" else _noise14(rng, kind)),
                H.item_flags(rng.choice([1, 2]))]
        for j in range(rng.randint(2, 4)):
            it = H.item_frame(rng, maxinfo=40, sizes=[2, 3, 8, 20], tag=j)
            if len(it["info"]) < 2:
                it["info"] = [0, j]
            if not cfg[0]:
                H.noflag(rng, it)
            plan += [it, H.item_flags(rng.choice([1, 2]))]
        data = H.plan_wire(cfg, plan)
        cuts = chunkings(rng, len(data), 3)
        # long runs: the implementation-shaped spec re-scans the header per octet like the code does (quadratic); only the contract is judged
        out.append(H.make_trace(cfg, data, cuts, mode="resync", plan=plan, origin="gen:c14:" + kind, nodrift=(kind == "longrun")))
    return out


def _mk_c14_p1(args):
    from .core import set_logging
    set_logging(args)
    seed, n = args
    rng = random.Random(seed)
    out = []
    for k in range(n):
        kind = (KINDS14 + ["almost", "longrun"])[k % 6]
        plan = [P.item_noise(almost_readouts(rng, seed + k // 6) if kind == "almost" else longrun(rng, "p1") if kind == "longrun" else _noise14(rng, kind))] + [P.item_readout(rng, tag=j, nlines=rng.choice([0, 1, 3])) for j in range(rng.randint(2, 4))]
        data = P.plan_wire(plan)
        cuts = chunkings(rng, len(data), 3)
        out.append(P.make_trace(data, cuts, mode="resync", plan=plan, origin="gen:c14:" + kind, nodrift=(kind == "longrun")))
    return out


def run_c14(chk: Check) -> int:
    quick = chk.tier == "quick"
    # totality of the implementation-shaped specs: Step/ReadCall are defined for every octet in every reachable state
    H.run_models(chk, ["Refines"], libs=("std",))
    P.run_models(chk, ["BufBounded"])
    s = chk.seed * 1000 + 14
    ht = H.pmap(_mk_c14_hdlc, [(s + i, 24 if quick else 300) for i in range(16)])
    H.judge_and_harvest(chk, ht, ("C14", "C16"), "c14-hdlc")
    pt = P.pmap(_mk_c14_p1, [(s + 50 + i, 24 if quick else 300) for i in range(16)])
    pt += P.pmap(P._mk_resync, [(s + 80 + i, 3 if quick else 24) for i in range(8)])
    pt += P.guard_sweep_traces(chk.rng)
    P.judge_and_harvest(chk, pt, ("C14", "C16"), "c14-p1")
    from . import drv_proto
    drv_proto.c14_part(chk)
    t = pt[2]
    chk.sample({"reader": "p1", "origin": t["origin"], "noise": bytes(t["plan"][0]["o"][:60]).decode("latin1"),
                "raised": [c["raised"] for c in t["runs"][0]["calls"]][:5]})
    t = ht[3]
    chk.sample({"reader": "hdlc", "cfg": t["cfg"], "origin": t["origin"], "noise": bytes(t["plan"][0]["o"][:30]).hex()})
    chk.assumptions += ["an exception out of read(), is_valid, payload, as_bytes, message_type or data_received() is recorded as an "
                        "observation and rejected by the contract; C16 clauses on the clean suffix are part of C14's statement"]
    return chk.finish(rule="noise of six kinds (long runs of one octet or unit after a flag / an identification line; messages right in everything but one boundary-valued octet / one damaged place; uniform 0..255; structural characters / ! LF CR 7E 7D >=0x80 hex/non-hex; P1-shaped fragments "
                           "incl. '!' in the identification line, non-ASCII after '!'; HDLC-shaped fragments) followed by a clean suffix, "
                           ">=3 chunkings, both readers (HDLC in 4 configurations), both protocol classes with [HDLC,P1] and [P1,HDLC]; TLC "
                           "rejects any recorded exception and checks the suffix per C16; non-trivial = distinct noise prefix")


def replay_c14(chk: Check, rp: dict) -> int:
    if rp.get("kind") == "hdlc-trace":
        return H.replay_trace(chk, rp, ("C14", "C16"))
    if rp.get("kind") == "proto-trace":
        from . import drv_proto
        return drv_proto.replay_any(chk, rp, ("C14",))
    return P.replay_any(chk, rp, ("C14", "C16"))


# ----------------------------------------------------------------------------- C19
_SKIP = (type, types.ModuleType, types.FunctionType, types.BuiltinFunctionType, types.MethodType, types.CodeType,
         types.GetSetDescriptorType, types.MemberDescriptorType, types.WrapperDescriptorType, types.MethodDescriptorType)


def deep_size(obj) -> int:
    """Sum of sys.getsizeof over everything reachable from obj (generic traversal, no attribute names)."""
    seen, stack, total = set(), [obj], 0
    while stack:
        o = stack.pop()
        if id(o) in seen or isinstance(o, _SKIP):
            continue
        seen.add(id(o))
        total += sys.getsizeof(o)
        stack.extend(gc.get_referents(o))
    return total


def static_size() -> int:
    """Size of everything the han package keeps at module and class level (caches, tables, memo dictionaries): what a reader makes the
    package retain on its behalf is counted through the growth of this number over a run."""
    roots = []
    for name, m in list(sys.modules.items()):
        if name == "han" or name.startswith("han."):
            for v in list(vars(m).values()):
                if isinstance(v, type) and getattr(v, "__module__", "").startswith("han"):
                    roots += [x for x in vars(v).values() if not isinstance(x, _SKIP)]
                elif not isinstance(v, _SKIP):
                    roots.append(v)
    return deep_size(roots)


def _pattern_stream(reader: str, cfg, pattern: str, total: int, rng: random.Random):
    """Generator of the stream as an endless-like byte source of `total` octets (returned as one bytes object)."""
    FL, ES = b"\x7e", b"\x7d"
    if reader == "hdlc":
        fr = H.item_bytes(H.item_frame(rng, maxinfo=60, sizes=[20, 40]))
        w = H.stuff(fr) if cfg[0] else fr
        if pattern == "all_flags":
            return FL * total
        if pattern == "flag_junk":
            unit = FL + bytes(rng.randrange(256) for _ in range(5))
        elif pattern == "valid_frames":
            unit = FL + w
        elif pattern == "segmented_frames":           # valid frames with the segmentation bit set, every one different
            out, k = bytearray(), 0
            while len(out) < total:
                f = H.mkframe(seg=True, info=b"%09d" % k)
                out += FL + (H.stuff(f) if cfg[0] else f)
                k += 1
            return bytes(out[:total])
        elif pattern == "distinct_frames":            # every frame different (running number in addresses and payload)
            out, k = bytearray(), 0
            while len(out) < total:
                f = H.mkframe(dst=bytes([(k % 128) * 2, 1 + 2 * ((k // 128) % 128)]), info=b"%09d" % k)
                out += FL + (H.stuff(f) if cfg[0] else f)
                k += 1
            return bytes(out[:total])
        elif pattern == "never_ending_frame":
            return FL + b"\xa7\xff\x01\x03\x13" + bytes(rng.choice(b"\x01\x02\x03\x10\x20\x55") for _ in range(total))
        elif pattern == "random":
            return bytes(rng.randrange(256) for _ in range(total))
        elif pattern == "esc_flag":
            unit = ES + FL
        elif pattern == "overshoot_then_flags":
            return FL + fr + b"\x55" + FL * total
        elif pattern == "header_then_flags":
            return FL + fr[:8] + FL * total
        elif pattern == "len0_header_then_endless":     # a header that announces length 0, with a correct header check sequence, then anything
            hdr = bytes([0xA0, 0x00, 0x03, 0x03, 0x13])
            c = H._fcs(hdr)
            return FL + hdr + bytes([c & 0xFF, c >> 8]) + bytes(rng.choice(b"\x01\x02\x7e\x10\x00\x55") for _ in range(total))
        elif pattern == "escape_run":                 # an opening flag, then nothing but escape octets
            return FL + ES * total
        elif pattern == "escape_dense_frame":         # never-ending frame made of escapes and escaped octets
            return FL + b"\xa7\xff\x01\x03\x13" + bytes(rng.choice(b"\x7d\x7d\x7d\x5e\x5d\x01\x20") for _ in range(total))
        else:
            unit = FL
        return (unit * (total // len(unit) + 1))[:total]
    ro = P.item_bytes(P.item_readout(rng, nlines=8))
    if pattern == "slash_lines_no_bang":
        unit = b"/ABC5id\r\n1-0:1.8.0(1*kWh)\r\n"
    elif pattern == "slash_no_lf":
        return b"/" + bytes(rng.choice(b"abc 123") for _ in range(total))
    elif pattern == "ident_endless_lines":
        return b"/ABC5id\r\n" + (b"1-0:1.8.0(00001.000*kWh)\r\n" * (total // 26 + 1))[:total]
    elif pattern == "valid_readouts":
        unit = ro
    elif pattern == "distinct_readouts":         # every readout different: running number in the identification line and the data
        out, k = [], 0
        n = 0
        while n < total:
            body = b"/ABC5%012d\r\n0-0:96.1.0(%d)\r\n!" % (k, k)
            x = body + (b"%04X\r\n" % P.crc16(body) if k % 2 else b"\r\n")
            out.append(x)
            n += len(x)
            k += 1
        return b"".join(out)[:total]
    elif pattern == "distinct_ident_lines":      # identification lines only, every one different, never an end line
        out, k, n = [], 0, 0
        while n < total:
            x = b"/XYZ3%013d\r\n" % k
            out.append(x)
            n += len(x)
            k += 1
        return b"".join(out)[:total]
    elif pattern == "random_ascii":
        return bytes(rng.choice(b"/!\r\n()*.:-0123456789ABCxyz ") for _ in range(total))
    elif pattern == "random":
        return bytes(rng.randrange(256) for _ in range(total))
    elif pattern == "no_lf_no_slash":
        return bytes(rng.choice(b"abc 123") for _ in range(total))
    elif pattern == "ident_then_no_lf":        # a readout starts, then the line end never comes again (CR only)
        return b"/ABC5id\r\n" + (b"1-0:1.8.0(00001.000*kWh)\r" * (total // 25 + 1))[:total]
    elif pattern == "ident_escapes_endless":    # "/KAM5" followed by mode escape sequences for ever, never a line end
        return b"/KAM5" + (b"\\2" * (total // 2 + 1))[:total]
    elif pattern == "long_lines_no_bang":       # an identification line, then 1500-octet data lines for ever
        return b"/ABC5id\r\n" + ((b"0-0:96.13.0(" + b"4" * 1480 + b")\r\n") * (total // 1490 + 1))[:total]
    elif pattern == "slash_repeated":
        unit = b"/"
    else:
        unit = b"\n"
    return (unit * (total // len(unit) + 1))[:total]


HDLC_PATTERNS = ["all_flags", "flag_junk", "valid_frames", "never_ending_frame", "random", "esc_flag", "overshoot_then_flags", "header_then_flags",
                 "escape_run", "escape_dense_frame", "distinct_frames", "len0_header_then_endless", "segmented_frames"]
P1_PATTERNS = ["slash_lines_no_bang", "slash_no_lf", "ident_endless_lines", "valid_readouts", "random_ascii", "random", "no_lf_no_slash",
               "slash_repeated", "ident_then_no_lf", "distinct_readouts", "distinct_ident_lines", "ident_escapes_endless", "long_lines_no_bang"]


def _mem_job(args):
    from .core import set_logging
    set_logging(args)
    reader, cfg, pattern, total, chunk, seed = args
    rng = random.Random(seed)
    data = _pattern_stream(reader, cfg, pattern, total, rng)
    if reader == "hdlc":
        from han.hdlc import HdlcFrameReader
        r = HdlcFrameReader(use_octet_stuffing=cfg[0], use_abort_sequence=cfg[1])
    else:
        from han.dlde import ModeDReader
        r = ModeDReader()
    ncalls = (len(data) + chunk - 1) // chunk
    every = max(1, ncalls // 60)
    samples, raised = [], ""
    fed = 0
    gc.collect()
    base = static_size()
    for i in range(ncalls):
        ch = data[i * chunk:(i + 1) * chunk]
        try:
            r.read(ch)
        except Exception as ex:  # noqa: BLE001 (C14's business; the memory run goes on)
            raised = type(ex).__name__
        fed += len(ch)
        if i % every == 0 or i == ncalls - 1:
            samples.append({"fed": fed, "chunk": len(ch), "deep": deep_size(r) + max(0, static_size() - base)})
    return {"id": stable_id("mem", reader, cfg, pattern, total, chunk), "canary": "", "reader": reader,
            "cfg": {"stuffing": bool(cfg and cfg[0]), "abort": bool(cfg and cfg[1])}, "pattern": pattern, "total": total,
            "chunk": chunk, "raised": raised, "samples": samples}


def run_c19(chk: Check) -> int:
    quick = chk.tier == "quick"
    H.run_models(chk, ["BufBounded"])
    P.run_models(chk, ["BufBounded"])
    hc = lambda st, ab, trim, fg: (f"CONSTANTS\n Stuffing = {st}\n Abort = {ab}\n MaxSegs = 3\n TrimAtEnd = {trim}\n FlagGuard = {fg}\n MaxLen = 12\n"
                                   " BufBound = 27\n Lib = \"max\"\n")
    chk.sensitivity("hdlc", "MC_HdlcReader", hc("TRUE", "TRUE", "FALSE", "TRUE"), "BufBounded", what="F6: buffer trimmed only at a flag (pinned tree)")
    chk.sensitivity("hdlc", "MC_HdlcReader", hc("FALSE", "FALSE", "TRUE", "FALSE"), "BufBounded", what="F10: no length check when a flag is taken as data (pinned tree)")
    chk.sensitivity("p1", "MC_ModeDReader", "CONSTANTS\n MaxSegs = 3\n GuardMax = 14\n Pinned = TRUE\n", "BufBounded", what="F5: pinned P1 buffer handling")
    total = 256 * 1024 if quick else 4 * 1024 * 1024
    jobs = []
    seed = chk.seed * 1000 + 19
    for pat in HDLC_PATTERNS:
        for cfg in H.CFGS:
            for chunk in ([4096, 97] if quick else [1, 7, 256, 4096, 65536]):
                t = min(total, 64 * 1024) if chunk == 1 else total
                jobs.append(("hdlc", cfg, pat, t, chunk, seed + len(jobs)))
    for pat in P1_PATTERNS:
        for chunk in ([4096, 97, 9000] if quick else [1, 7, 150, 256, 4096, 9000, 65536]):
            t = min(total, 64 * 1024) if chunk == 1 else total
            jobs.append(("p1", None, pat, t, chunk, seed + len(jobs)))
    if not quick:
        jobs.append(("hdlc", (False, False), "overshoot_then_flags", 16 * 1024 * 1024, 65536, seed))
        jobs.append(("hdlc", (True, True), "esc_flag", 16 * 1024 * 1024, 65536, seed))
        jobs.append(("p1", None, "slash_no_lf", 16 * 1024 * 1024, 65536, seed))
        jobs.append(("p1", None, "ident_endless_lines", 16 * 1024 * 1024, 4096, seed))
    with mp.Pool(16) as pool:
        traces = pool.map(_mem_job, jobs, chunksize=1)
    # canary: a run whose retained size grows with the input must be rejected
    can = dict(traces[0])
    can["id"] = "canary-growth"
    can["canary"] = "growth"
    can["samples"] = [{"fed": s["fed"], "chunk": s["chunk"], "deep": s["deep"] + s["fed"]} for s in traces[0]["samples"]]
    traces.append(can)
    verdicts = chk.judge("mem", "Trace_Memory", traces, what="c19-memory", shards=4)
    for t, v in zip(traces, verdicts):
        if t["canary"]:
            continue
        chk.count(t["id"])
        chk.cov["octets_fed"] = chk.cov.get("octets_fed", 0) + t["total"]
        if not v["ok"]:
            smp = t["samples"][v["at"] - 1] if 0 < v["at"] <= len(t["samples"]) else t["samples"][-1]
            chk.violation(f"mem-{t['reader']}-{t['pattern']}-{v['clause']}",
                          f"{t['reader']} reader {t['cfg'] if t['reader'] == 'hdlc' else ''} retains {smp['deep']} bytes after {smp['fed']} octets of "
                          f"pattern '{t['pattern']}' in chunks of {t['chunk']} (clause {v['clause']})",
                          {"kind": "mem-trace", "trace": t, "verdict": v})
    mx = max(traces[:-1], key=lambda t: max(s["deep"] - 2 * s["chunk"] for s in t["samples"]))
    chk.sample({"reader": mx["reader"], "pattern": mx["pattern"], "chunk": mx["chunk"], "fed": mx["samples"][-1]["fed"],
                "max_retained_minus_2chunk": max(s["deep"] - 2 * s["chunk"] for s in mx["samples"]), "samples": mx["samples"][:3]})
    chk.assumptions += ["deep size = sum of sys.getsizeof over everything reachable from the reader (gc.get_referents); Python object "
                        "sizes are measured, not modelled", "bound constant 64 KiB + 2 x last chunk (DESIGN §6-C19)"]
    return chk.finish(rule=f"models: retained octets <= K + last chunk in every reachable state of the bounded HDLC (MaxLen 12) and P1 (guard 14) "
                           f"models; measurements: {len(HDLC_PATTERNS)} HDLC patterns x 4 configurations and {len(P1_PATTERNS)} P1 patterns, "
                           f"{total // 1024} KiB each (16 MiB for the four growth patterns in the thorough tier), chunk sizes "
                           + ("97/4096/9000" if quick else "1..65536") + ", ~60 samples per run judged by TLC (bound and trend clauses); "
                           "non-trivial = distinct (reader, configuration, pattern, chunk size)")


def replay_c19(chk: Check, rp: dict) -> int:
    t = rp["trace"]
    cfg = (t["cfg"]["stuffing"], t["cfg"]["abort"]) if t["reader"] == "hdlc" else None
    nt = _mem_job((t["reader"], cfg, t["pattern"], t["total"], t["chunk"], chk.seed))
    v = chk.judge("mem", "Trace_Memory", [nt], what="replay")[0]
    if not v["ok"]:
        chk.violation(f"mem-{nt['reader']}-{nt['pattern']}-{v['clause']}", f"still rejected: {v}", {"kind": "mem-trace", "trace": nt, "verdict": v})
    return chk.finish(rule="replay of one memory run")
