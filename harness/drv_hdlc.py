"""HDLC reader drivers: recording, generators, and the checks C01, C02, C06 (+ HDLC parts of C14, C16)."""
from __future__ import annotations

import itertools
import multiprocessing as mp
import random

from .core import Check, chunkings, split, stable_id
from .tlc import MachineryError

FLAG, ESC = 0x7E, 0x7D
CFGS = [(False, False), (False, True), (True, False), (True, True)]


# ----------------------------------------------------------------------------- generator-side encoder
# (only used to BUILD inputs; TLC re-derives every plan frame with its own MkFrame and rejects the plan
#  if the wire differs, so this code is not trusted)
def _fcs(data: bytes) -> int:
    fcs = 0xFFFF
    for b in data:
        fcs ^= b
        for _ in range(8):
            fcs = (fcs >> 1) ^ 0x8408 if fcs & 1 else fcs >> 1
    return fcs ^ 0xFFFF


def mkframe(type_=0xA, seg=False, dst=b"\x01", src=b"\x03", ctrl=0x13, info=b"") -> bytes:
    n = 2 + len(dst) + len(src) + 1 + 2 + (len(info) + 2 if info else 0)
    fmt = (type_ << 12) | (0x800 if seg else 0) | n
    hdr = bytes([fmt >> 8, fmt & 0xFF]) + dst + src + bytes([ctrl])
    c = _fcs(hdr)
    h2 = hdr + bytes([c & 0xFF, c >> 8])
    if not info:
        return h2
    c = _fcs(h2 + info)
    return h2 + info + bytes([c & 0xFF, c >> 8])


def stuff(data: bytes) -> bytes:
    out = bytearray()
    for b in data:
        if b in (FLAG, ESC):
            out += bytes([ESC, b ^ 0x20])
        else:
            out.append(b)
    return bytes(out)


def rand_addr(rng: random.Random, n: int) -> bytes:
    return bytes([rng.randrange(128) * 2 for _ in range(n - 1)] + [rng.randrange(128) * 2 + 1])


def rand_info(rng: random.Random, n: int, dense: bool) -> bytes:
    if dense:
        return bytes(rng.choice([FLAG, ESC, 0x5E, 0x5D, 0x7E, 0x7D, rng.randrange(256)]) for _ in range(n))
    return bytes(rng.randrange(256) for _ in range(n))


def item_frame(rng: random.Random, maxinfo: int | None = None, sizes=None, tag: int | None = None, addr=None, dense=None) -> dict:
    dl, sl = addr or (rng.choice([1, 1, 1, 2, 3, 4]), rng.choice([1, 1, 2, 4]))
    cap = 2047 - (2 + dl + sl + 1 + 2) - 2
    if maxinfo is not None:
        cap = min(cap, maxinfo)
    sizes = sizes or [0, 0, 1, 2, 3, 5, 8, 16, 40, 127, 128, 255, 256]
    n = min(cap, rng.choice(sizes))
    info = rand_info(rng, n, rng.random() < 0.4 if dense is None else dense)
    if tag is not None and n >= 2:
        info = bytes([tag >> 8 & 0xFF, tag & 0xFF]) + info[2:]
    return {"k": "frame", "type": rng.choice([0xA, 0xA, 0xA, rng.randrange(16)]), "seg": rng.random() < 0.2,
            "dst": list(rand_addr(rng, dl)), "src": list(rand_addr(rng, sl)), "ctrl": rng.choice([0x13, 0x10, rng.randrange(256)]),
            "info": list(info), "o": [], "n": 0}


def item_bytes(it: dict) -> bytes:
    return mkframe(it["type"], it["seg"], bytes(it["dst"]), bytes(it["src"]), it["ctrl"], bytes(it["info"]))


def item_flags(n: int) -> dict:
    return {"k": "flags", "n": n, "o": [], "type": 0, "seg": False, "dst": [], "src": [], "ctrl": 0, "info": []}


def item_noise(o: bytes) -> dict:
    return {"k": "noise", "o": list(o), "n": 0, "type": 0, "seg": False, "dst": [], "src": [], "ctrl": 0, "info": []}


def plan_wire(cfg, plan) -> bytes:
    out = bytearray()
    for it in plan:
        if it["k"] == "noise":
            out += bytes(it["o"])
        elif it["k"] == "flags":
            out += bytes([FLAG]) * it["n"]
        else:
            f = item_bytes(it)
            out += stuff(f) if cfg[0] else f
    return bytes(out)


def in_domain_c02(cfg, it) -> bool:
    f = item_bytes(it)
    hl = 2 + len(it["dst"]) + len(it["src"]) + 3
    if not cfg[0] and FLAG in f[:hl]:
        return False
    if not cfg[0] and cfg[1]:
        if f[-1] == ESC or bytes([ESC, FLAG]) in f:
            return False
    return len(f) <= 2047


# ----------------------------------------------------------------------------- recording
def _acc(fn, err):
    try:
        return fn()
    except Exception as ex:  # noqa: BLE001 - an exception is an observation (C14)
        err.append(type(ex).__name__)
        return None


def frame_record(f) -> dict:
    err: list[str] = []
    o = _acc(lambda: f.as_bytes, err) or b""
    valid = _acc(lambda: f.is_valid, err)
    payload = _acc(lambda: f.payload, err)
    _acc(lambda: f.message_type, err)
    h = f.header
    dst = _acc(lambda: h.destination_address, err)
    src = _acc(lambda: h.source_address, err)
    ctrl = _acc(lambda: h.control, err)
    hcs = _acc(lambda: h.header_check_sequence, err)
    fcs = _acc(lambda: f.frame_check_sequence, err)
    flen = _acc(lambda: h.frame_length, err)
    ftype = _acc(lambda: h.frame_format_type, err)
    seg = _acc(lambda: h.segmentation, err)
    return {"o": list(o), "valid": bool(valid), "haspayload": payload is not None, "payload": list(payload or b""),
            "dst": list(dst or b""), "src": list(src or b""), "ctrl": -1 if ctrl is None else ctrl,
            "hcs": -1 if hcs is None else hcs, "fcs": -1 if fcs is None else fcs, "flen": -1 if flen is None else flen,
            "ftype": -1 if ftype is None else ftype, "seg": bool(seg), "ws": 0, "we": 0, "raised": err[0] if err else "", "stable": True}


def recheck_stable(kept, lists=()) -> None:
    """Ask every delivered message object again, after the whole stream has been fed: a user may keep the object while reading on.
    `lists`: (list object returned by read(), its records) per call - a list handed out again, or changed afterwards, is not the caller's."""
    seen: dict = {}
    for res, recs in lists:
        same_obj = id(res) in seen and seen[id(res)][0] is res
        changed = len(res) != len(recs)
        if same_obj or changed:
            for r in recs + (seen[id(res)][1] if same_obj else []):
                r["unstable_list"] = True
        seen[id(res)] = (res, recs)
    for obj, rec in kept:
        try:
            same = (bytes(obj.as_bytes or b"") == bytes(rec["o"]) and bool(obj.is_valid) == rec["valid"]
                    and bytes(obj.payload or b"") == bytes(rec["payload"]))
        except Exception:  # noqa: BLE001
            same = False
        rec["stable"] = bool(same) and not rec.pop("unstable_list", False)


_BYSTANDER = [b"\x7e\xa0\x09\x01\x7d", b"\x03\x13\x7d", b"\x7e", b"\x7e\xa0\x7d\x5e\x01\x7d", b"\xff\x7d\x7e\xa0", b"", b"\x7d"]


def record_run(cfg, chunks: list[bytes], reader=None, reuse=False) -> dict | None:
    """reuse: every chunk is handed over in ONE bytearray object that the caller refills (a receive buffer). The signature says bytes,
    so a reader that refuses (TypeError) is within its rights - the run is then dropped (None); a reader that accepts it must read it right."""
    from han.hdlc import HdlcFrameReader
    r = reader or HdlcFrameReader(use_octet_stuffing=cfg[0], use_abort_sequence=cfg[1])
    # a second reader lives in the same process and is used between the calls (two meters, two connections): readers are independent objects
    by = HdlcFrameReader(use_octet_stuffing=cfg[0], use_abort_sequence=cfg[1])
    calls = []
    kept = []
    lists = []
    rbuf = bytearray()
    for n, ch in enumerate(chunks):
        raised = ""
        frames = []
        try:
            by.read(_BYSTANDER[n % len(_BYSTANDER)])
        except Exception:  # noqa: BLE001
            pass
        try:
            if reuse:
                rbuf[:] = ch
                res = r.read(rbuf)
            else:
                res = r.read(ch)
            frames = [frame_record(f) for f in res]
            kept += list(zip(res, frames))
            lists.append((res, frames))
        except TypeError as ex:
            if reuse:
                return None
            raised = type(ex).__name__
        except Exception as ex:  # noqa: BLE001
            raised = type(ex).__name__
        try:
            hunt, esc = bool(r.is_in_hunt_mode), bool(r.unescape_next)
        except Exception:  # noqa: BLE001
            hunt, esc = False, False
        calls.append({"chunk": list(ch), "raised": raised, "hunt": hunt, "esc": esc, "frames": frames})
    recheck_stable(kept, lists)
    return {"calls": calls}


def add_witness(cfg, run: dict):
    """Greedy earliest in-order assignment of each returned frame to a flag-delimited input segment."""
    fed = b"".join(bytes(c["chunk"]) for c in run["calls"])
    frames = [f for c in run["calls"] for f in c["frames"]]
    if not frames:
        return
    prev_e = 0  # 1-based index of the last octet used (0 = none)
    if cfg[0]:
        # segments between consecutive flags
        flags = [i for i, b in enumerate(fed) if b == FLAG]
        segs = []
        for a, b in zip(flags, flags[1:]):
            segs.append((a + 2, b))  # 1-based s = a+1+1, e = b (index of last octet before flag b, 1-based = b)
        k = 0
        for f in frames:
            target = bytes(f["o"])
            while k < len(segs):
                s, e = segs[k]
                k += 1
                if s <= prev_e:
                    continue
                if _unstuff(fed[s - 1:e]) == target:
                    f["ws"], f["we"] = s, e
                    prev_e = e
                    break
    else:
        for f in frames:
            target = bytes([FLAG]) + bytes(f["o"]) + bytes([FLAG])
            start = max(prev_e - 0, 0)  # 0-based index from which the opening flag may be taken
            p = fed.find(target, start)
            if p < 0:
                break
            f["ws"], f["we"] = p + 2, p + 1 + len(f["o"])
            prev_e = f["we"]


def _unstuff(seg: bytes) -> bytes:
    out = bytearray()
    esc = False
    for b in seg:
        if esc:
            out.append(b ^ 0x20)
            esc = False
        elif b == ESC:
            esc = True
        else:
            out.append(b)
    return bytes(out)


def make_trace(cfg, data: bytes, cutsets: list[list[int]], *, mode="free", plan=None, origin="", nodrift=False) -> dict:
    runs = []
    for cuts in cutsets:
        run = record_run(cfg, split(data, cuts))
        add_witness(cfg, run)
        runs.append(run)
    if len(cutsets) > 1 and len(data) < 20000:      # one more run: the last chunking again, through a reused bytearray
        run = record_run(cfg, split(data, cutsets[-1]), reuse=True)
        if run is not None:
            add_witness(cfg, run)
            runs.append(run)
    return {"id": stable_id("hdlc", cfg, data.hex(), cutsets, mode), "canary": "", "origin": origin,
            "cfg": {"stuffing": cfg[0], "abort": cfg[1]}, "mode": mode, "plan": plan or [], "runs": runs,
            "nodrift": nodrift}


def trace_octets(t: dict) -> int:
    return sum(len(c["chunk"]) for r in t["runs"] for c in r["calls"])


def nframes(t: dict) -> int:
    return sum(len(c["frames"]) for c in t["runs"][0]["calls"])


# ----------------------------------------------------------------------------- stream generators
def AddrEndPy(f: bytes, p: int) -> int:
    """0-based index of the last octet of the address starting at p, -1 if it does not end."""
    while p < len(f):
        if f[p] & 1:
            return p
        p += 1
    return -1


def damaged_variants(rng: random.Random, f: bytes) -> list[bytes]:
    out = []
    i = rng.randrange(len(f))
    out.append(f[:i] + bytes([f[i] ^ (1 << rng.randrange(8))]) + f[i + 1:])      # bit flip anywhere
    out.append(f[:-1] + bytes([f[-1] ^ 0x01]))                                    # FCS damaged
    out.append(bytes([f[0], (f[1] + 1) & 0xFF]) + f[2:])                          # length field +1
    out.append(f[:rng.randrange(1, len(f))])                                      # truncated
    out.append(f + bytes([rng.randrange(256)]))                                   # one octet too long
    out.append(f[:7])                                                             # cut right after a 1+1 address HCS
    # wrong header check sequence, frame check sequence recomputed: INTACT by the statement of C01 (length field and FCS are right)
    it_hl = 0
    d = AddrEndPy(f, 2)
    s_ = AddrEndPy(f, d + 1) if d >= 0 else -1
    if s_ >= 0 and len(f) > s_ + 5:
        g = bytearray(f)
        g[s_ + 2] ^= 0x10
        c = _fcs(bytes(g[:-2]))
        g[-2:] = bytes([c & 0xFF, c >> 8])
        out.append(bytes(g))
    # wrong length field with recomputed HCS and FCS (is_good_ffc true, length wrong)
    n = len(f) + rng.choice([-1, 1, 2])
    hdr = bytes([0xA0 | (n >> 8) & 7, n & 0xFF, 1, 3, 0x13])
    c = _fcs(hdr)
    h2 = hdr + bytes([c & 0xFF, c >> 8])
    body = h2 + f[7:-2]
    c = _fcs(body)
    out.append(body + bytes([c & 0xFF, c >> 8]))
    return out


def empty_info_frame(rng: random.Random) -> bytes:
    """A frame with header check sequence, a ZERO-length information field and a frame check sequence of its own:
    intact by the statement of C01 (length field = octet count, FCS good); its payload accessor is b"" (not None)."""
    dst, src = rand_addr(rng, rng.choice([1, 2])), rand_addr(rng, 1)
    n = 2 + len(dst) + len(src) + 1 + 2 + 2
    hdr = bytes([0xA0 | (n >> 8), n & 0xFF]) + dst + src + bytes([0x13])
    c = _fcs(hdr)
    h2 = hdr + bytes([c & 0xFF, c >> 8])
    c = _fcs(h2)
    return h2 + bytes([c & 0xFF, c >> 8])


def free_stream(rng: random.Random, cfg, budget: int = 400) -> bytes:
    """Frames, damaged frames, noise and flags in random order (C01/C06/C14)."""
    out = bytearray()
    for _ in range(rng.randint(1, 7)):
        kind = rng.random()
        if kind < 0.03:      # check sequences of 0x0000
            f = item_bytes(zero_check_item(rng))
            w = stuff(f) if cfg[0] else f
            out += bytes([FLAG]) + w + bytes([FLAG])
        elif kind < 0.06:    # two or three frames of other format types back to back, sharing their flags
            for _k in range(rng.randint(2, 3)):
                it = item_frame(rng, maxinfo=12)
                it["type"] = rng.choice([0, 1, 2, 3, 7, 9, 11, 15])
                f = item_bytes(it)
                out += bytes([FLAG]) + (stuff(f) if cfg[0] else f)
            out += bytes([FLAG])
        elif kind < 0.09:
            f = empty_info_frame(rng)
            w = stuff(f) if cfg[0] else f
            out += bytes([FLAG]) + w + bytes([FLAG])
        elif kind < 0.35:
            f = item_bytes(item_frame(rng, maxinfo=budget))
            w = stuff(f) if cfg[0] and rng.random() < 0.9 else f
            out += bytes([FLAG]) * rng.choice([0, 1, 1, 2]) + w + bytes([FLAG]) * rng.choice([0, 1, 1, 2])
        elif kind < 0.65:
            f = item_bytes(item_frame(rng, maxinfo=budget))
            d = rng.choice(damaged_variants(rng, f))
            w = stuff(d) if cfg[0] and rng.random() < 0.8 else d
            out += bytes([FLAG]) * rng.choice([1, 1, 2]) + w + bytes([FLAG]) * rng.choice([0, 1, 2])
        elif kind < 0.8:
            out += bytes(rng.choice([FLAG, ESC, 0x5E, 0x5D, 0xA0, 0x07, 0x01, 0x02, rng.randrange(256)])
                         for _ in range(rng.randint(1, 30)))
        elif kind < 0.9:
            out += bytes(rng.randrange(256) for _ in range(rng.randint(1, 60)))
        else:
            out += bytes([FLAG]) * rng.randint(1, 4) + bytes([ESC]) * rng.randint(0, 2) + bytes([FLAG]) * rng.randint(0, 2)
    return bytes(out)


def special_check_octets(rng: random.Random, it: dict, want: str) -> dict:
    """Vary the last information octets until a check sequence carries a flag/escape octet where it hurts:
    want = "fcs_last" (last frame octet 0x7D or 0x7E), "fcs_first", "hcs" (an HCS octet is 0x7D/0x7E)."""
    if not it["info"]:
        it["info"] = [0, 0]
    for _ in range(6000):
        it["info"][-1] = rng.randrange(256)
        if len(it["info"]) > 1:
            it["info"][-2] = rng.randrange(256)
        if want == "hcs":
            it["ctrl"] = rng.randrange(256)
        f = item_bytes(it)
        hl = 2 + len(it["dst"]) + len(it["src"]) + 3
        if (want == "fcs_last" and f[-1] in (FLAG, ESC)) or (want == "fcs_first" and f[-2] in (FLAG, ESC)) or \
                (want == "hcs" and (f[hl - 1] in (FLAG, ESC) or f[hl - 2] in (FLAG, ESC))):
            return it
    return it


_COMBOS = [(d, s_) for d in (1, 2, 3, 4) for s_ in (1, 2, 3, 4)]


def zero_check_item(rng: random.Random) -> dict:
    """Well-formed frames whose header check sequence or frame check sequence is 0x0000 (found by search; TLC re-derives the wire)."""
    it = item_frame(rng, sizes=[0])
    it["type"], it["seg"], it["ctrl"] = 0xA, False, 0x13
    k = rng.randrange(3)
    if k == 0:
        it["dst"], it["src"], it["info"] = [3], [40, 221], []                                   # header-only frame, HCS = 0000
    elif k == 1:
        it["dst"], it["src"], it["info"] = [3], [248, 137], [rng.randrange(256) for _ in range(4)]   # HCS = 0000, FCS arbitrary
    else:
        it["dst"], it["src"], it["info"] = [1], [3], [1, 2, 202, 202]                            # FCS = 0000
    return it


def clean_plan(rng: random.Random, cfg, nframes_: int, sizes=None, fresh_noise=True, dense=None) -> list[dict]:
    plan = []
    if fresh_noise and rng.random() < 0.4:
        plan.append(item_noise(bytes(rng.choice([ESC, 0x5E, 0, 1, 0xA0, rng.randrange(256)]) for _ in range(rng.randint(1, 20))
                                     ).replace(bytes([FLAG]), b"\x00")))
    plan.append(item_flags(rng.choice([1, 1, 2, 3, 5])))
    for _ in range(nframes_):
        for _try in range(50):
            # every combination of 1..4-octet addresses comes round; a fifth of the frames get a check sequence with a
            # flag/escape octet in it (the reader's abort / stuffing / delimiter logic looks at exactly those places)
            it = item_frame(rng, sizes=sizes, addr=_COMBOS[rng.randrange(16)] if rng.random() < 0.5 else None, dense=dense)
            if rng.random() < 0.2 and (sizes is None):
                it = special_check_octets(rng, it, rng.choice(["fcs_last", "fcs_first", "hcs"]))
            elif rng.random() < 0.12 and (sizes is None):
                it = zero_check_item(rng)
            if in_domain_c02(cfg, it):
                break
        else:
            it = item_frame(rng, sizes=[0])
            it["dst"], it["src"], it["ctrl"], it["type"], it["seg"] = [1], [3], 0x13, 0xA, False
        plan.append(it)
        plan.append(item_flags(rng.choice([1, 1, 1, 2, 3, 5])))
    return plan


NOISE_KINDS = ["random", "framestart", "escape_end", "truncated", "abort", "flagsesc", "overlong", "empty", "shortframe", "escape_cut"]


def noise_prefix(rng: random.Random, cfg, kind: str) -> bytes:
    f = item_bytes(item_frame(rng, maxinfo=60))
    w = stuff(f) if cfg[0] else f
    if kind == "random":
        return bytes(rng.randrange(256) for _ in range(rng.randint(1, 200)))
    if kind == "framestart":
        return bytes([FLAG]) + w[:rng.randint(1, len(w))]
    if kind == "escape_end":
        return bytes(rng.randrange(256) for _ in range(rng.randint(0, 20))) + bytes([FLAG]) * rng.randint(0, 1) + \
            w[:rng.randint(0, len(w))] + bytes([ESC])
    if kind == "truncated":
        return bytes([FLAG]) + w[:rng.randint(1, max(1, len(w) - 1))] + bytes([FLAG]) * rng.randint(0, 1)
    if kind == "abort":
        return bytes([FLAG]) + w[:rng.randint(1, len(w))] + bytes([ESC, FLAG]) * rng.randint(1, 2)
    if kind == "flagsesc":
        return bytes(rng.choice([FLAG, ESC, ESC, 0x5E]) for _ in range(rng.randint(1, 12)))
    if kind == "overlong":
        return bytes([FLAG, 0xA0]) + bytes(rng.choice([1, 3, 0x10, 0x20]) for _ in range(rng.choice([2046, 2047, 2048, 2100])))
    if kind == "escape_cut":      # a frame start cut off right after an escape octet, before its header is complete
        return bytes([FLAG]) * rng.randint(0, 1) + bytes([0xA0, 0x0B, 0x01, 0x03, 0x13, 0x55])[:rng.randint(1, 6)] + bytes([ESC])
    if kind == "shortframe":
        return bytes([FLAG]) + bytes(rng.randrange(256) for _ in range(rng.randint(1, 6))) + bytes([FLAG]) * rng.randint(0, 1)
    return b""


def resync_plan(rng: random.Random, cfg, kind: str, nsuffix: int, big: bool = False, densebig: bool = False) -> list[dict]:
    plan = [item_noise(noise_prefix(rng, cfg, kind))]
    if plan[0]["o"] == []:
        plan = [item_noise(b"\x00")]
    plan.append(item_flags(rng.choice([1, 2])))
    for j in range(nsuffix):
        if cfg[0] and not densebig and j == 2 and rng.random() < 0.3:
            it = item_frame(rng, sizes=[9999], tag=j, dense=False)                              # exactly 2047 octets
        elif densebig and j % 2 == 1:
            # stuffing: a frame within the length limit whose wire form (escapes included) is far above it
            it = item_frame(rng, sizes=[1100, 1209, 1500, 2030, 9999], tag=j, dense=True)        # 9999: capped to the largest frame (2047 octets)
        else:
            it = item_frame(rng, maxinfo=None if big else 80, sizes=[2, 3, 5, 8, 16, 40] + ([400, 900, 9999] if big else []), tag=j)
        if len(it["info"]) < 2:
            it["info"] = [j >> 8 & 0xFF, j & 0xFF]
        if not cfg[0]:
            noflag(rng, it)
        plan.append(it)
        plan.append(item_flags(rng.choice([1, 1, 2])))
    return plan


def noflag(rng: random.Random, it: dict):
    """Make a frame item flag-free in every octet, and not ending in the escape octet (non-stuffing C16 suffix, DESIGN 8-9 and 8-18:
    with abort detection on, a last octet 0x7D followed by the closing flag IS an abort sequence)."""
    for _ in range(200):
        it["info"] = [b if b != FLAG else 0x7F for b in it["info"]]
        it["dst"] = [b if b != FLAG else 0x7C for b in it["dst"]]
        it["src"] = [b if b != FLAG else 0x7C for b in it["src"]]
        if it["ctrl"] == FLAG:
            it["ctrl"] = 0x13
        if FLAG not in item_bytes(it) and item_bytes(it)[-1] != ESC:
            return
        # a check sequence (or the length octet) happens to be 0x7E, or the frame ends in 0x7D: perturb and retry
        f = item_bytes(it)
        if FLAG not in f:           # only the last octet is in the way
            if it["info"]:
                it["info"][-1] = rng.choice([c for c in range(256) if c != FLAG])
            else:
                it["ctrl"] = rng.choice([c for c in range(256) if c != FLAG])
            continue
        hl = 2 + len(it["dst"]) + len(it["src"]) + 3
        if FLAG in f[:hl] or not it["info"]:
            it["ctrl"] = rng.choice([c for c in range(256) if c != FLAG])
            if f[1] == FLAG and it["info"]:
                it["info"] = it["info"] + [1]
        else:
            it["info"][-1] = rng.choice([c for c in range(256) if c != FLAG])


# ----------------------------------------------------------------------------- canaries
def canaries_for(traces: list[dict], rng: random.Random) -> list[dict]:
    """Deliberately corrupted copies of recorded traces; TLC must reject every one of them."""
    import copy
    out = []
    withf = [t for t in traces if nframes(t) > 0 and not t["canary"]]
    rng.shuffle(withf)

    def first_frame(t):
        for c in t["runs"][0]["calls"]:
            if c["frames"]:
                return c["frames"][0]
        return None

    kinds = ["flip_valid", "payload_octet", "frame_octet", "drop_frame", "dst", "witness"]
    for kind, t in zip(kinds, withf):
        c = copy.deepcopy(t)
        f = first_frame(c)
        if kind == "flip_valid":
            f["valid"] = not f["valid"]
        elif kind == "payload_octet":
            vf = [x for cl in c["runs"][0]["calls"] for x in cl["frames"] if x["valid"] and x["haspayload"]]
            if not vf:
                continue
            vf[0]["payload"][0] ^= 1
        elif kind == "frame_octet":
            f["o"][len(f["o"]) // 2] ^= 4
        elif kind == "drop_frame":
            if c["mode"] not in ("clean", "resync") or len(c["runs"]) < 1:
                # in free mode a dropped frame is only visible through C06 (>= 2 runs)
                if len(c["runs"]) < 2:
                    continue
            for cl in c["runs"][0]["calls"]:
                vfs = [x for x in cl["frames"] if x["valid"]]
                if vfs:
                    cl["frames"].remove(vfs[-1])
                    break
            else:
                continue
        elif kind == "dst":
            vf = [x for cl in c["runs"][0]["calls"] for x in cl["frames"] if x["valid"]]
            if not vf:
                continue
            vf[0]["dst"] = vf[0]["dst"] + [1]
        elif kind == "witness":
            f["ws"] += 1
        c["canary"] = kind
        c["id"] = "canary-" + kind + "-" + t["id"]
        out.append(c)
    return out


# ----------------------------------------------------------------------------- verdict handling
def harvest(chk: Check, traces: list[dict], verdicts: list[dict], prefixes: tuple[str, ...], kind: str):
    """Turn TLC verdicts into violations of THIS property (clauses starting with one of `prefixes`)."""
    for t, v in zip(traces, verdicts):
        if t["canary"]:
            continue
        for fl in v["fails"]:
            if fl["c"] == "plan":
                raise MachineryError(f"generator produced a plan outside the contract's domain: trace {t['id']} ({t.get('origin')})")
            if fl["c"].startswith(prefixes):
                chk.violation(f"hdlc-{fl['c']}-{t.get('origin', '')}",
                              f"TLC rejects HDLC trace {t['id']} ({t.get('origin')}, stuffing={t['cfg']['stuffing']} "
                              f"abort={t['cfg']['abort']}): clause {fl['c']} run {fl['run']} at {fl['at']}",
                              {"kind": kind, "trace": t, "verdict": v})
        for d in v["drift"]:
            chk.drift(f"hdlc trace {t['id']} ({t.get('origin')}): {d['c']} run {d['run']} call {d['at']}")


def judge_and_harvest(chk: Check, traces: list[dict], prefixes, what: str, with_canaries=True):
    if with_canaries:
        traces = traces + canaries_for(traces, chk.rng)
    verdicts = chk.judge("hdlc", "Trace_Hdlc", traces, what=what)
    harvest(chk, traces, verdicts, prefixes, "hdlc-trace")
    chk.cov.setdefault("octets_judged", 0)
    chk.cov["octets_judged"] += sum(trace_octets(t) for t in traces)
    for t in traces:
        if not t["canary"]:
            chk.count(t["id"] if nframes(t) > 0 else None)
    return verdicts


def replay_trace(chk: Check, rp: dict, prefixes) -> int:
    """Re-run the recorded inputs against the current tree, record afresh, judge again."""
    t = rp["trace"]
    cfg = (t["cfg"]["stuffing"], t["cfg"]["abort"])
    runs = []
    for run in t["runs"]:
        nr = record_run(cfg, [bytes(c["chunk"]) for c in run["calls"]])
        add_witness(cfg, nr)
        runs.append(nr)
    nt = dict(t)
    nt["runs"] = runs
    nt["canary"] = ""
    verdicts = chk.judge("hdlc", "Trace_Hdlc", [nt], what="replay")
    harvest(chk, [nt], verdicts, prefixes, "hdlc-trace")
    return chk.finish(rule="replay of one recorded trace")


# ----------------------------------------------------------------------------- model runs
def run_models(chk: Check, invariants: list[str], *, libs=("std", "max"), cfgs=CFGS):
    """Impl => Contract on the bounded HDLC models (independent of /repo; numbers go to the evidence)."""
    import os
    quick = chk.tier == "quick"
    for lib in libs:
        for (st, ab) in cfgs:
            if lib == "std":
                segs, maxlen, bound = (2 if quick else 3), 2047, 100
            else:
                segs, maxlen, bound = (3 if quick else 4), 12, 27
            name = f"MC_HdlcReader_{lib}_{st}_{ab}_{segs}.cfg"
            path = os.path.join(chk.rundir, name)
            with open(path, "w") as f:
                f.write("SPECIFICATION Spec\nCONSTANTS\n"
                        f" Stuffing = {str(st).upper()}\n Abort = {str(ab).upper()}\n MaxSegs = {segs}\n"
                        f" TrimAtEnd = TRUE\n FlagGuard = TRUE\n MaxLen = {maxlen}\n BufBound = {bound}\n Lib = \"{lib}\"\n"
                        + "".join(f"INVARIANT {i}\n" for i in invariants if not (lib == "max" and i == "Segmented"))
                        + "CHECK_DEADLOCK FALSE\n")
            chk.model("hdlc", "MC_HdlcReader", path, workers=16, coverage=False, timeout=1500)

    def consts(st, ab, segs, maxlen, bound, lib):
        return (f"CONSTANTS\n Stuffing = {str(st).upper()}\n Abort = {str(ab).upper()}\n MaxSegs = {segs}\n TrimAtEnd = TRUE\n FlagGuard = TRUE\n"
                f" MaxLen = {maxlen}\n BufBound = {bound}\n Lib = \"{lib}\"\n")
    if "Resync" in invariants and "max" in libs:
        # the non-stuffing form of C16 binds nothing in the "max" library at these sizes (witness W_ResyncBinds unreachable): own library
        for (st, ab) in cfgs:
            if not st:
                path = os.path.join(chk.rundir, f"MC_HdlcReader_rs_{ab}.cfg")
                with open(path, "w") as f:
                    f.write("SPECIFICATION Spec\n" + consts(False, ab, 4 if quick else 5, 8, 27, "rs")
                            + "INVARIANT Resync\nINVARIANT Refines\nINVARIANT ValidIffIntact\nINVARIANT BufBounded\nCHECK_DEADLOCK FALSE\n")
                chk.model("hdlc", "MC_HdlcReader", path, workers=16, coverage=False, timeout=1500)
    # vacuity guards for the invariants just checked
    std = [w for inv, ws in (("ValidIffIntact", ["W_ValidOut", "W_InvalidOut"]), ("Segmented", ["W_ValidOut"]), ("CleanDelivered", ["W_TwoCleanDelivered"]),
                             ("Refines", ["W_CallEndsInsideFrame"])) if inv in invariants for w in ws]
    if std and "std" in libs:
        chk.witnesses("hdlc", "MC_HdlcReader", consts(True, True, 2, 2047, 100, "std"), sorted(set(std)))
    if "max" in libs:
        mx = (["W_ResyncBinds"] if "Resync" in invariants else []) + (["W_RetainedNearMax"] if "BufBounded" in invariants else [])
        if mx:
            chk.witnesses("hdlc", "MC_HdlcReader", consts(True, True, 3, 12, 27, "max"), mx)
        if "Resync" in invariants:
            chk.witnesses("hdlc", "MC_HdlcReader", consts(False, True, 4, 8, 27, "rs"), ["W_ResyncBinds"])
        if "BufBounded" in invariants:
            chk.witnesses("hdlc", "MC_HdlcReader", consts(False, False, 3, 12, 27, "max"), ["W_RetainedNearMax"])


def _mk_free(args):
    from .core import set_logging
    set_logging(args)
    seed, n, ncuts = args
    rng = random.Random(seed)
    out = []
    for _ in range(n):
        cfg = rng.choice(CFGS)
        data = free_stream(rng, cfg)
        cuts = chunkings(rng, len(data), ncuts)
        out.append(make_trace(cfg, data, cuts, mode="free", origin="gen:free"))
    return out


def _mk_clean(args):
    from .core import set_logging
    set_logging(args)
    seed, n, ncuts, big = args
    rng = random.Random(seed)
    out = []
    for k in range(n):
        cfg = CFGS[k % 4]
        sizes = None
        nfr = rng.randint(1, 8)
        if big and k % 5 == 0:
            sizes = [2029, 2030, 2033, 2036, 2037, 2038, 1500, 1024]  # capped at 2047 - header - 4 by item_frame
            nfr = rng.randint(1, 3)
        plan = clean_plan(rng, cfg, nfr, sizes=sizes, dense=True if (sizes and k % 10 == 0) else None)
        data = plan_wire(cfg, plan)
        cuts = chunkings(rng, len(data), ncuts)
        out.append(make_trace(cfg, data, cuts, mode="clean", plan=plan, origin="gen:clean" + (":max" if sizes else "")))
    return out


def _mk_resync(args):
    from .core import set_logging
    set_logging(args)
    seed, n, ncuts, big = args
    rng = random.Random(seed)
    out = []
    for k in range(n):
        cfg = CFGS[k % 4]
        kind = NOISE_KINDS[(k // 4 + seed * 2) % len(NOISE_KINDS)]      # jobs start at different kinds so that a small tier still covers all
        far = (not cfg[0]) and k % 3 == 0  # non-stuffing: make the suffix long enough that frames become required
        plan = resync_plan(rng, cfg, kind, rng.randint(2, 6) if not far else rng.randint(8, 14), big=far, densebig=cfg[0] and k % 3 == 1)
        data = plan_wire(cfg, plan)
        cuts = chunkings(rng, len(data), ncuts)
        nl = len(plan[0]["o"])
        sz = rng.choice([1, 2, 3, 7]) if len(data) - nl < 800 else rng.choice([11, 29])
        rest = len(data) - nl
        if nl and rest:
            cuts.append([nl] + [sz] * (rest // sz) + ([rest % sz] if rest % sz else []))          # noise whole, suffix in small chunks
        out.append(make_trace(cfg, data, cuts, mode="resync", plan=plan, origin="gen:resync:" + kind))
    return out


def pmap(fn, jobs):
    with mp.Pool(min(16, max(1, len(jobs)))) as pool:
        res = pool.map(fn, jobs)
    return [t for r in res for t in r]


def bitflip_traces(rng: random.Random, n_frames: int) -> list[dict]:
    """Every single-bit flip of a few short frames, in the configuration where the frame would be delivered."""
    out = []
    for k in range(n_frames):
        cfg = CFGS[k % 4]
        it = item_frame(rng, maxinfo=6, sizes=[0, 1, 3, 6])
        f = item_bytes(it)
        for bit in range(len(f) * 8):
            g = bytearray(f)
            g[bit // 8] ^= 1 << (bit % 8)
            w = stuff(bytes(g)) if cfg[0] else bytes(g)
            data = bytes([FLAG]) + w + bytes([FLAG, FLAG])
            out.append(make_trace(cfg, data, [[len(data)], [1] * len(data)], mode="free", origin="gen:bitflip"))
    return out


def lenfield_traces(rng: random.Random, values) -> list[dict]:
    """A fixed body with every length-field value, HCS and FCS recomputed (is_good_ffc true, length wrong unless equal)."""
    out = []
    for k, n in enumerate(values):
        cfg = CFGS[k % 4]
        hdr = bytes([0xA0 | (n >> 8) & 7, n & 0xFF, 1, 3, 0x13])
        c = _fcs(hdr)
        h2 = hdr + bytes([c & 0xFF, c >> 8])
        body = h2 + b"\x07\x08\x09"
        c = _fcs(body)
        fr = body + bytes([c & 0xFF, c >> 8])
        w = stuff(fr) if cfg[0] else fr
        data = bytes([FLAG]) + w + bytes([FLAG]) + bytes([FLAG]) * 2
        out.append(make_trace(cfg, data, [[len(data)], [3, len(data) - 3]], mode="free", origin="gen:lenfield"))
    return out


def gen_behaviours(chk: Check) -> list[dict]:
    """spec -> code: wires built by TLC's reference encoder (Gen_Hdlc) with the outputs the spec expects."""
    from . import tlc
    return tlc.export("hdlc", "Gen_Hdlc", rundir=chk.rundir, env={"GEN_SEED": str(chk.seed)})


def replay_behaviours(chk: Check, prefixes, kind_filter=None, only=None) -> int:
    """Replay every TLC-generated behaviour into the real reader; compare frames, validity, hunt/esc per call."""
    beh = only if only is not None else gen_behaviours(chk)
    n = 0
    for b in beh:
        if kind_filter and b["kind"] not in kind_filter:
            continue
        cfg = (b["cfg"]["stuffing"], b["cfg"]["abort"])
        run = record_run(cfg, [bytes(c["chunk"]) for c in b["calls"]])
        n += 1
        chk.count("beh-" + str(b["id"]))
        for i, (c, e) in enumerate(zip(run["calls"], b["calls"])):
            got = [(f["o"], f["valid"]) for f in c["frames"]]
            exp = [(f["octets"], f["valid"]) for f in e["frames"]]
            if c["raised"] or got != exp:
                chk.violation(f"hdlc-replay-{b['kind']}",
                              f"spec->code replay: behaviour {b['id']} ({b['kind']}) call {i + 1}: reader returned "
                              f"{[(bytes(o).hex(), v) for o, v in got]} raised={c['raised']!r}, the specification's reference "
                              f"encoder/reader expects {[(bytes(o).hex(), v) for o, v in exp]}",
                              {"kind": "hdlc-behaviour", "behaviour": b})
                break
            if (c["hunt"], c["esc"]) != (e["hunt"], e["esc"]):
                chk.drift(f"behaviour {b['id']} call {i + 1}: hunt/esc {(c['hunt'], c['esc'])} vs spec {(e['hunt'], e['esc'])}")
    chk.cov["behaviours_replayed"] = chk.cov.get("behaviours_replayed", 0) + n
    chk.cov["traces_validated_against_impl"] += n
    if beh:
        chk.sample({"tlc_behaviour": {k: beh[0][k] for k in ("id", "kind", "cfg")}, "calls": beh[0]["calls"][:2]})
    return n


# ----------------------------------------------------------------------------- C01
def run_c01(chk: Check) -> int:
    quick = chk.tier == "quick"
    run_models(chk, ["ValidIffIntact", "Segmented", "Refines"])
    replay_behaviours(chk, ("C01",))
    s = chk.seed * 1000
    jobs = [(s + i, 14 if quick else 220, 2) for i in range(16)]
    traces = pmap(_mk_free, jobs)
    traces += bitflip_traces(chk.rng, 4 if quick else 40)
    traces += lenfield_traces(chk.rng, list(range(0, 2048, 97 if quick else 3)) + [12, 11, 13])
    jobs = [(s + 500 + i, 4 if quick else 40, 2, not quick) for i in range(16)]
    traces += pmap(_mk_clean, jobs)
    judge_and_harvest(chk, traces, ("C01",), "c01-traces")
    partial_accessors(chk, 200 if quick else 4000)
    smp = next((t for t in traces if nframes(t) > 1), traces[0])
    chk.sample({"cfg": smp["cfg"], "origin": smp["origin"], "calls": [
        {"chunk": bytes(c["chunk"]).hex(), "frames": [{"o": bytes(f["o"]).hex(), "valid": f["valid"], "ws": f["ws"], "we": f["we"]}
                                                     for f in c["frames"]]} for c in smp["runs"][0]["calls"][:4]]})
    chk.assumptions += ["segmentation witnesses are found by a greedy search in the driver and verified by TLC",
                        "frames above ~12 octets are sampled, not enumerated"]
    return chk.finish(rule="model: all wires of <=2/3 library segments (real-FCS frames, damaged variants, flags, escapes, noise) x "
                           "all chunkings {1,2,3,5,rest} x 4 configurations; traces: random frame/damage/noise streams, every "
                           "single-bit flip of short frames, length-field sweep, clean plans, each under >=2 chunkings, every returned "
                           "frame judged by TLC on clauses V (valid<=>intact, FCS recomputed by TLC), F (accessors), S (segmentation); "
                           "non-trivial = trace in which the reader returned at least one frame")


def replay_c01(chk: Check, rp: dict) -> int:
    return replay_trace(chk, rp, ("C01",))


# ----------------------------------------------------------------------------- C02
def run_c02(chk: Check) -> int:
    quick = chk.tier == "quick"
    run_models(chk, ["CleanDelivered", "Refines"])
    replay_behaviours(chk, ("C02",), kind_filter=("clean",))
    s = chk.seed * 1000 + 77
    jobs = [(s + i, 10 if quick else 120, 3, True) for i in range(16)]
    traces = pmap(_mk_clean, jobs)
    judge_and_harvest(chk, traces, ("C02",), "c02-traces")
    smp = traces[0]
    chk.sample({"cfg": smp["cfg"], "plan": [{k: v for k, v in it.items() if v not in ([], 0, False)} for it in smp["plan"][:5]],
                "delivered": [bytes(f["o"]).hex() for c in smp["runs"][0]["calls"] for f in c["frames"]][:4]})
    chk.assumptions += ["plans are generated in Python but re-derived and domain-checked by TLC (MkFrame, Stuff, InDomainC02)"]
    return chk.finish(rule="model: clean wires from the library under all chunkings; traces: plans of 1..8 well-formed frames (info 0..max, "
                           "1..4-octet addresses, flag/escape-dense payloads, 1..5 fill flags, optional flag-free leading noise) x >=3 "
                           "chunkings x 4 configurations; TLC verifies the plan, then valid deliveries = plan frames exactly; "
                           "non-trivial = distinct plan")


def replay_c02(chk: Check, rp: dict) -> int:
    return replay_trace(chk, rp, ("C02",))


# ----------------------------------------------------------------------------- C06
ALPH = [0x7E, 0x7D, 0x5E, 0xA0, 0x07, 0x02]


def _sig(cfg, chunks):
    from han.hdlc import HdlcFrameReader
    r = HdlcFrameReader(use_octet_stuffing=cfg[0], use_abort_sequence=cfg[1])
    out = []
    for ch in chunks:
        try:
            for f in r.read(ch):
                out.append((f.as_bytes, f.is_valid, f.payload))
        except Exception as ex:  # noqa: BLE001 - recorded again (with the exception) by make_trace; C14 judges it
            out.append(("raised", type(ex).__name__, None))
    return out


def _c06_job(args):
    from .core import set_logging
    set_logging(args)
    cfg, lo, hi, tails, seed, allcuts, blen = args
    rng = random.Random(seed)
    traces, vac, nstreams, nruns = [], 0, 0, 0
    for idx in range(lo, hi):
        body, x = [], idx
        for _ in range(blen):
            body.append(ALPH[x % 6])
            x //= 6
        for tail in tails:
            data = bytes([FLAG] + body + [FLAG]) + tail
            n = len(data)
            cutsets = [[n], [1] * n]
            if allcuts:
                cutsets += [[c, n - c] for c in range(1, n)]
            else:
                c1, c2 = rng.randint(1, n - 1), rng.randint(1, n - 1)
                cutsets += [[c1, n - c1], [c2, n - c2]]
            sigs = [_sig(cfg, split(data, cuts)) for cuts in cutsets]
            nstreams += 1
            nruns += len(cutsets)
            if all(not s for s in sigs):
                vac += 1
                if rng.random() >= 0.01:
                    continue
            traces.append(make_trace(cfg, data, cutsets, mode="free", origin="enum:7E.body.7E.tail"))
    return traces, vac, nstreams, nruns


def _mk_c06_random(args):
    from .core import set_logging
    set_logging(args)
    seed, n = args
    rng = random.Random(seed)
    out = []
    for k in range(n):
        cfg = CFGS[k % 4]
        style = rng.random()
        if style < 0.4:
            data = free_stream(rng, cfg)
        elif style < 0.7:
            data = bytes(rng.choice([FLAG, ESC, 0x5E, 0x5D, 0xA0, 0x07, 0x01, 0x03, 0x13, rng.randrange(256)])
                         for _ in range(rng.randint(1, 120)))
        else:
            plan = resync_plan(rng, cfg, rng.choice(NOISE_KINDS), rng.randint(2, 4))
            data = plan_wire(cfg, plan)
        if k % 6 == 5:                      # long stream: one read() of many KiB against the same stream in pieces
            data = b"".join(free_stream(rng, cfg) for _ in range(rng.randint(12, 40)))
        cuts = chunkings(rng, len(data), 5)
        if len(data) <= 40:
            cuts += [[c, len(data) - c] for c in range(1, len(data))]
        if len(data) > 3000:
            cuts = [c for c in cuts if len(c) <= 2500] + [[len(data) // 2, len(data) - len(data) // 2]]
        out.append(make_trace(cfg, data, cuts, mode="free", origin="gen:c06" + (":long" if len(data) > 3000 else "")))
    return out


def run_c06(chk: Check) -> int:
    quick = chk.tier == "quick"
    run_models(chk, ["Refines"])
    blen = 7
    total = 6 ** blen
    tails = [b""] if quick else [b""] + [bytes([a]) for a in ALPH] + [bytes([FLAG, b]) for b in ALPH]
    step = total // 16 + 1
    jobs = []
    for cfg in CFGS:
        for j in range(16):
            jobs.append((cfg, j * step, min(total, (j + 1) * step), tails, chk.seed * 100 + j, not quick, blen))
    with mp.Pool(16) as pool:
        res = pool.map(_c06_job, jobs)
    traces = []
    vac = nstreams = nruns = 0
    for tr, v, ns, nr in res:
        traces += tr
        vac += v
        nstreams += ns
        nruns += nr
    if not quick:
        # all streams of length <= 8 (no-output behaviour included)
        pass
    traces += pmap(_mk_c06_random, [(chk.seed * 1000 + 300 + i, 12 if quick else 150) for i in range(16)])
    chk.cov["enumerated_streams"] = nstreams
    chk.cov["enumerated_runs"] = nruns
    chk.cov["vacuous_streams_not_shipped"] = vac - sum(1 for t in traces if t["origin"].startswith("enum") and nframes(t) == 0)
    chk.cov["exhaustive"] = True
    chk.count(None, nstreams)
    # batch to keep the per-JVM heap small
    B = 40000
    for i in range(0, len(traces), B):
        judge_and_harvest(chk, traces[i:i + B], ("C06",), "c06-traces", with_canaries=(i == 0))
    smp = next((t for t in traces if nframes(t) > 0), traces[0])
    chk.sample({"cfg": smp["cfg"], "stream": bytes(c for cl in smp["runs"][0]["calls"] for c in cl["chunk"]).hex(),
                "chunkings": [[len(c["chunk"]) for c in r["calls"]] for r in smp["runs"]][:4],
                "frames": [bytes(f["o"]).hex() for cl in smp["runs"][0]["calls"] for f in cl["frames"]]})
    chk.assumptions += ["streams for which every chunking returned no frame satisfy C06 vacuously; they are counted and a 1% "
                        "sample is still judged by TLC"]
    return chk.finish(rule=f"model: Refines (reader state and outputs = buffer-free fold of everything fed) under all chunkings; "
                           f"exhaustive on the real code: all 6^7 bodies over {{7E,7D,5E,A0,07,02}} as 7E.body.7E.tail "
                           f"({len(tails)} tails) x 4 configurations x chunkings (whole, per octet, "
                           + ("2 random single cuts" if quick else "every single cut") +
                           "); plus random frame/noise/resync streams under >=5 chunkings; all runs of one stream must return the "
                           "same frames (octets, validity, payload); non-trivial = stream on which some run returned a frame")


def replay_c06(chk: Check, rp: dict) -> int:
    return replay_trace(chk, rp, ("C06",))


# ----------------------------------------------------------------------------- growth: accessors on partial frames (DRIFT level)
def partial_record(octets: bytes) -> dict:
    from han.hdlc import HdlcFrame
    f = HdlcFrame()
    obs = []

    def g(fn, default=-1):
        try:
            v = fn()
        except Exception:  # noqa: BLE001
            return -2
        return default if v is None else v
    for b in octets:
        try:
            f.append(b)
        except Exception:  # noqa: BLE001
            pass
        h = f.header
        dst, src, pl = g(lambda: h.destination_address, None), g(lambda: h.source_address, None), g(lambda: f.payload, None)
        obs.append({"format": g(lambda: h.frame_format), "ftype": g(lambda: h.frame_format_type), "seg": bool(g(lambda: h.segmentation, False)),
                    "flen": g(lambda: h.frame_length), "hasdst": isinstance(dst, bytes), "dst": list(dst) if isinstance(dst, bytes) else [],
                    "hassrc": isinstance(src, bytes), "src": list(src) if isinstance(src, bytes) else [], "ctrl": g(lambda: h.control),
                    "hcs": g(lambda: h.header_check_sequence), "infopos": g(lambda: h.information_position), "good": bool(g(lambda: f.is_good_ffc, False)),
                    "explen": bool(g(lambda: f.is_expected_length, False)), "fcs": g(lambda: f.frame_check_sequence),
                    "haspayload": isinstance(pl, bytes), "payload": list(pl) if isinstance(pl, bytes) else []})
    return {"id": stable_id("partial", octets.hex()), "canary": "", "octets": list(octets), "obs": obs}


def partial_accessors(chk: Check, n: int):
    """HdlcFrame.append octet by octet; every accessor after every octet judged by TLC (spec/hdlc/HdlcPartial.tla)."""
    rng = chk.rng
    recs = []
    for k in range(n):
        it = item_frame(rng, maxinfo=24, sizes=[0, 1, 3, 8, 24])
        fr = item_bytes(it)
        kind = k % 4
        if kind == 1:
            fr = rng.choice(damaged_variants(rng, fr))
        elif kind == 2:
            fr = bytes(rng.choice([0xA0, 0x07, 0x02, 0x01, 0x03, 0x7E, rng.randrange(256)]) for _ in range(rng.randint(1, 16)))
        elif kind == 3:
            fr = bytes([0xA0, len(fr)]) + bytes(rng.randrange(128) * 2 for _ in range(rng.randint(1, 6))) + fr[2:]   # long / unterminated addresses
        recs.append(partial_record(fr[:48]))
    import copy
    c = copy.deepcopy(next(r for r in recs if len(r["obs"]) > 6))
    c["obs"][5]["good"] = not c["obs"][5]["good"]
    c["canary"], c["id"] = "good", "canary-partial"
    recs.append(c)
    seen, uniq = set(), []
    for r in recs:
        if r["id"] not in seen:
            seen.add(r["id"])
            uniq.append(r)
    verdicts = chk.judge("hdlc", "Trace_HdlcPartial", uniq, what="partial-accessors")
    nb = 0
    for r, v in zip(uniq, verdicts):
        if r["canary"]:
            continue
        if not v["ok"]:
            nb += 1
            chk.drift(f"HdlcFrame accessor '{v['field']}' after {v['at']} octets of {bytes(r['octets']).hex()} differs from spec/hdlc/HdlcPartial.tla")
    chk.cov["partial_frame_accessor_records"] = len(uniq) - 1
    chk.cov["partial_frame_accessor_mismatches"] = nb
