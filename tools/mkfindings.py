#!/usr/bin/env python3
"""Regenerate KNOWN_FINDINGS.json: the fixed: entries, with the commit hash looked up in /repo by subject."""
import json
import os
import subprocess

V = os.path.dirname(os.path.dirname(os.path.abspath(__file__)))
log = subprocess.run(["git", "-C", "/repo", "log", "--format=%h\t%s"], capture_output=True, text=True).stdout.splitlines()
by = {}
for ln in log:
    h, s = ln.split("\t", 1)
    by[s] = h


def h(prefix):
    for s, c in by.items():
        if s.startswith(prefix):
            return c
    raise SystemExit("no commit: " + prefix)


F = [
    ("C20", "fix: Obis.to_reduced_str", "Obis((1,2,3,4,5,6)).to_reduced_str() returned '1-1-2:3.4.5*6' (group A repeated when group B present); format->parse round trip lost the groups"),
    ("C04", "fix: P1 readout with checksum 0000", "readout with wrong CRC and transmitted checksum 0000 was reported valid (truthiness test on the expected checksum)"),
    ("C09", "fix: Kamstrup current-transformer", "Kamstrup CT meter (type 685...) never detected: current register 896 decoded as 8.96 instead of 0.896"),
    ("C16", "fix: HDLC reader kept a pending control escape", "stuffing HDLC reader: 7E 01 7D 7E f1 7E f2 7E f3 7E delivered only f3 (pending escape survived flags and hunt mode; two frames lost)"),
    ("C01", "fix: HDLC reader kept a pending control escape", "same defect: a returned frame began with an octet XOR 0x20 that occurs nowhere in the input between its flags"),
    ("C19", "fix: HDLC reader buffer grew without bound", "HDLC reader retained every octet of an endless flag fill (800 KiB of 0x7E -> 908 KB retained)"),
    ("C19", "fix: HDLC reader without octet stuffing grew a frame", "non-stuffing HDLC reader: a frame one octet longer than its length field followed by flag fill grew without bound (409 612 octets after 400 KiB of flags); found by TLC (invariant BufBounded, MC_HdlcReader max library)"),
    ("C14", "fix: P1 reader and readout raised on line noise", "ModeDReader.read(b'/\\xff\\n') raised UnicodeDecodeError; DataReadout.is_valid raised ValueError on '!zz', '!\\xff' and on an invalid identification line"),
    ("C13", "fix: P1 reader and readout raised on line noise", "data_received raised on clean HDLC streams with [P1, HDLC] candidates (same defect)"),
    ("C05", "fix: P1 reader lost readouts", "200 back-to-back 149-octet readouts fed in 150-octet chunks -> 198 returned; any chunk above 8191 octets lost a readout per call"),
    ("C19", "fix: P1 reader lost readouts", "P1 reader retained '/' + megabytes without LF, and identification line + endless data lines"),
    ("C16", "fix: P1 reader lost readouts", "P1 reader lost more than the first readout after noise when the 8191-octet guard tripped in the middle of a later readout"),
    ("C17", "fix: ConnectionManager.close()", "connect attempt started after close() (orphaned back-off task), transport obtained concurrently with close() never closed, closing-event waiter tasks leaked per reconnect cycle"),
    ("C15", "fix: P1 data block parser looped", "DataSet.parse_data_block looped for ever with unbounded allocation on '1.0(5', '1.0(5)xyz', 'a*('"),
    ("C07", "fix: Aidon register scaling no longer depends", "Aidon decoding multiplied the register by 10^exponent under the calling thread's decimal context: with decimal.getcontext().prec = 6 the register 10049926 (Wh) decoded as 10049900.0, 230.7 V as 231.0 at prec 3 (found when the checks began to rotate the ambient decimal precision)"),
    ("C15", "fix: AutoDecoder let decoder errors", "KeyError/IndexError/AttributeError/TypeError/OverflowError escaped AutoDecoder (Kamstrup OBIS octet change, Kaifa length change, Kaifa SE frame tried by the Kamstrup decoder, date-time hour 0xFF, P1 value inf)"),
]
entries = []
for pid, subj, what in F:
    c = h(subj)
    entries.append({"kind": "fixed", "property": pid, "commit": c, "line": f"fixed: property={pid} {c} {what}"})
doc = {
    "comment": "Genuine defects of toreamun/amshan @ 22a5dfc found by this machinery, all repaired by 'fix:' commits in /repo. kind=fixed "
               "entries suppress nothing: the check passes on the repaired tree without a KNOWN-FINDING line and reports the violation again "
               "if it returns. kind=finding entries (none at present) would be matched by exact signature (harness/core.py Check.violation). "
               "This file is never written at run time; regenerate the commit hashes with tools/mkfindings.py.",
    "entries": entries,
}
json.dump(doc, open(os.path.join(V, "KNOWN_FINDINGS.json"), "w"), indent=1)
print(len(entries), "entries")
