#!/usr/bin/env python3
"""Rewrite the 'Measured quick tier' table of DESIGN.md §4 from the committed evidence files."""
import json
import os
import re

V = os.path.dirname(os.path.dirname(os.path.abspath(__file__)))
rows = []
for i in range(1, 21):
    pid = f"C{i:02d}"
    e = json.load(open(os.path.join(V, "evidence", pid + ".json")))
    c = e["coverage"]
    extra = []
    for k in ("behaviours_replayed", "step_pairs_replayed", "enumerated_streams", "executions", "octets_judged", "octets_fed"):
        if k in c:
            extra.append(f"{k.replace('_', ' ')} {c[k]:,}".replace(",", " "))
    if "task_model_validation" in c:
        extra.append(f"task-model validated {c['task_model_validation']['accepted']}")
    m = re.search(r"wall=([\d.]+)s", c.get("optimized_pass", {}).get("summary", ""))
    second = f"{float(m.group(1)):.0f} s" if m else "-"
    guards = len(c.get("witnesses", [])) + len(c.get("sensitivity", []))
    rows.append(f"| {pid} | {c['states']:,} | {c['traces_validated_against_impl']:,} ({'; '.join(extra)}) | {c['canaries']['rejected']}/{c['canaries']['planted']} | {guards} | {e['wall_s']:.0f} s + {second} |".replace(",", " "))
table = ("| id | model states (distinct) | executions of real code judged by / replayed from TLC (first pass) | canaries rejected | vacuity + sensitivity guards | wall: first pass + pass under -O |\n|---|---|---|---|---|---|\n" + "\n".join(rows) + "\n")
p = os.path.join(V, "DESIGN.md")
s = open(p).read()
a = s.index("Measured quick tier on the repaired tree")
b = s.index("The thorough tier multiplies")
s = s[:a] + "Measured quick tier on the repaired tree (seed 1; generated from `evidence/*.json` by `tools/mktable.py`):\n\n" + table + "\n" + s[b:]
open(p, "w").write(s)
print("table rewritten")
