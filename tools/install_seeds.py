#!/usr/bin/env python3
"""Developer tool: copy confirmed seeded changes from /tmp/seed/out-*/ into /verif/seeded/<id>/ and write RESULTS.md
from the evaluation logs (/tmp/seed/eval*.log and extra result lines given on stdin as 'C19-A DETECTED note')."""
import glob
import json
import os
import re
import shutil
import sys

V = os.path.dirname(os.path.dirname(os.path.abspath(__file__)))
res = {}
for log in sorted(glob.glob("/tmp/seed/eval*.log")):
    cur = None
    for ln in open(log):
        m = re.match(r"=== (C\d+)-([A-D])", ln)
        if m:
            cur = f"{m.group(1)}-{m.group(2)}"
            res.setdefault(cur, {"confirm": "?", "runs": []})
            continue
        if cur and ln.startswith("confirm:"):
            res[cur]["confirm"] = ln.strip()
        m = re.match(r"\s+\('(\w+)', (\d), (\d+)\)", ln)
        if cur and m:
            res[cur]["runs"].append(m.group(1))
        if cur and ln.strip().startswith("what:") and "what" not in res[cur]:
            res[cur]["what"] = ln.strip()[6:][:300]
extra = {}
if os.path.exists("/tmp/seed/extra.json"):
    extra = json.load(open("/tmp/seed/extra.json"))
rows = []
for key in sorted(res):
    pid, x = key.split("-")
    src = f"/tmp/seed/out-{pid}"
    r = res[key]
    if "-> OK" not in r["confirm"]:
        rows.append((key, "not confirmed (dropped)", "", ""))
        continue
    dst = os.path.join(V, "seeded", key)
    os.makedirs(dst, exist_ok=True)
    shutil.copy(f"{src}/{x}.patch.diff", f"{dst}/patch.diff")
    shutil.copy(f"{src}/{x}.demo.py", f"{dst}/demo.py")
    notes = open(f"{src}/{x}.notes.md").read() if os.path.exists(f"{src}/{x}.notes.md") else ""
    open(f"{dst}/notes.md", "w").write(notes)
    first = r["runs"][0] if r["runs"] else "?"
    ex = extra.get(key, {})
    final = ex.get("final", first)
    meta = {"property": pid, "source": "sub-agent that saw only the property text and a scratch worktree of /repo (nothing from /verif)",
            "needs_to_manifest": ex.get("needs") or notes.strip().split("\n\n")[0][:600],
            "confirmed": r["confirm"], "ran": [f"tools/seedcheck.py confirm patch.diff demo.py", f"tools/seedcheck.py run patch.diff {pid}"],
            "first_result": first, "final_result": final, "strengthening": ex.get("strengthening", ""),
            "detected_by": ex.get("detected_by", f"./check {pid} --tier quick"), "first_rejection": r.get("what", "")}
    json.dump(meta, open(f"{dst}/meta.json", "w"), indent=1)
    rows.append((key, first, final, ex.get("strengthening", "")))
with open(os.path.join(V, "seeded", "RESULTS.md"), "w") as f:
    f.write("# Seeded changes written by independent sub-agents\n\nEach sub-agent saw only the text of one property and a scratch worktree of /repo. "
            "A change is kept only after `tools/seedcheck.py confirm` (124 tests pass with it; the demonstration exits 1 with it and 0 without). "
            "`first` = verdict of the property's quick check as it was when the change arrived; `final` = verdict after strengthening (if any).\n\n"
            "| change | first | final | strengthening |\n|---|---|---|---|\n")
    for k, a, b, c in rows:
        f.write(f"| {k} | {a} | {b} | {c} |\n")
print(len(rows), "seeds;", sum(1 for r in rows if r[1] == "DETECTED"), "detected at first,", sum(1 for r in rows if r[2] == "DETECTED"), "finally")
