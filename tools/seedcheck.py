#!/usr/bin/env python3
"""Developer tool (not a registered check): confirm a seeded change and run checks against it.

  tools/seedcheck.py confirm <patch> <demo.py>      in a scratch worktree under /tmp: 124 tests pass with the patch,
                                                   demo exits 1 with it and 0 without
  tools/seedcheck.py run <patch> <pid> [pid...]     apply to /repo, run ./check <pid> --tier quick, undo; prints verdict per pid
"""
import os
import shutil
import subprocess
import sys
import tempfile

V = os.path.dirname(os.path.dirname(os.path.abspath(__file__)))


def sh(cmd, **kw):
    return subprocess.run(cmd, shell=True, capture_output=True, text=True, **kw)


def confirm(patch, demo):
    wt = tempfile.mkdtemp(prefix="amshan-seedwt-")
    os.rmdir(wt)
    try:
        if sh(f"git -C /repo worktree add -q --detach {wt} HEAD").returncode != 0:
            raise SystemExit("cannot create scratch worktree")
        clean = sh(f"/venv/bin/python {demo} {wt}", timeout=120).returncode
        ap = sh(f"git -C {wt} apply {patch}")
        if ap.returncode:
            print("patch does not apply:", ap.stderr[:300])
            return False
        tests = sh(f"cd {wt} && /venv/bin/python -m pytest -q -p no:cacheprovider 2>&1 | tail -1")
        seeded = sh(f"/venv/bin/python {demo} {wt}", timeout=120).returncode
        ok = clean == 0 and seeded == 1 and "124 passed" in tests.stdout
        print(f"confirm: demo clean={clean} seeded={seeded} tests='{tests.stdout.strip()}' -> {'OK' if ok else 'REJECTED'}")
        return ok
    finally:
        sh(f"git -C /repo worktree remove --force {wt}")
        shutil.rmtree(wt, ignore_errors=True)


def run(patch, pids):
    """Apply the patch in a scratch worktree (never in /repo) and run the checks against it via VERIF_REPO."""
    wt = tempfile.mkdtemp(prefix="amshan-seedrun-")
    os.rmdir(wt)
    res = {}
    try:
        if sh(f"git -C /repo worktree add -q --detach {wt} HEAD").returncode != 0:
            raise SystemExit("cannot create scratch worktree")
        ap = sh(f"git -C {wt} apply {patch}")
        if ap.returncode:
            print("patch does not apply:", ap.stderr[:300])
            return 2
        env = dict(os.environ, VERIF_REPO=wt)
        for pid in pids:
            evf = os.path.join(V, "evidence", f"{pid}.json")
            saved = open(evf).read() if os.path.exists(evf) else None
            p = sh(f"cd {V} && ./check {pid} --tier quick", timeout=3600, env=env)
            if saved is not None:           # evidence of a seeded run is not evidence: put the clean-tree file back
                open(evf, "w").write(saved)
            viol = [l for l in p.stdout.splitlines() if l.startswith("VIOLATION")]
            res[pid] = ("DETECTED" if p.returncode == 1 and viol else ("MACHINERY" if p.returncode == 2 else "missed"), p.returncode, len(viol))
            what = [l[:400] for l in p.stderr.splitlines() if l.strip().startswith("what:")][:2]
            print(pid, res[pid], *what, sep="\n   ")
    finally:
        sh(f"git -C /repo worktree remove --force {wt}")
        shutil.rmtree(wt, ignore_errors=True)
    return 0


if __name__ == "__main__":
    if sys.argv[1] == "confirm":
        sys.exit(0 if confirm(os.path.abspath(sys.argv[2]), os.path.abspath(sys.argv[3])) else 1)
    sys.exit(run(os.path.abspath(sys.argv[2]), sys.argv[3:]))
