#!/usr/bin/env python3
"""Regenerate /verif/MANIFEST.json from harness/manifest_data.py and the registry."""
import json
import os
import sys

V = os.path.dirname(os.path.dirname(os.path.abspath(__file__)))
sys.path.insert(0, V)
from harness import manifest_data as md  # noqa: E402

BASE = "cd /repo && /venv/bin/python -m pytest -ra -q -p no:cacheprovider --timeout=900 --continue-on-collection-errors"
props = [json.loads(l)["id"] for l in open(os.path.join(V, "properties.jsonl"))]
checks, na = [], []
for pid in props:
    if pid in md.CHECKS:
        c = md.CHECKS[pid]
        checks.append({
            "property_id": pid,
            "quick_cmd": f"./check {pid} --tier quick",
            "thorough_cmd": f"./check {pid} --tier thorough",
            "evidence_file": f"evidence/{pid}.json",
            "replay_cmd_template": f"./check {pid} --replay {{path}}",
            "engine": "tlc",
            "level_claimed": {"category": c.get("category", "model_checking"), "text": c["text"], "design_ref": c["design_ref"]},
            "level_note": c["note"],
            "technique": c["technique"],
        })
    else:
        na.append({"property_id": pid, "reason": md.NOT_APPLICABLE.get(pid, "check not built yet in this revision (planned: DESIGN.md §11); nothing is claimed for it")})
m = {
    "version": 1,
    "setup_cmd": "./setup.sh",
    "hooks": {
        "guard": "AMSHAN_VERIF",
        "enable": "not used: no source hooks were needed (every event is visible through the public API or harness-owned fakes); checks import /repo's working tree directly",
        "baseline_off_cmd": BASE,
        "source_commits": [],
        "add_only": True,
    },
    "engines": md.ENGINES,
    "checks": checks,
    "notes": md.NOTES,
    "not_applicable": na,
}
with open(os.path.join(V, "MANIFEST.json"), "w") as f:
    json.dump(m, f, indent=1)
print("checks:", [c["property_id"] for c in checks], "not_applicable:", [n["property_id"] for n in na])
