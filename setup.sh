#!/bin/sh
# setup_cmd: nothing to build (pure Python harness + TLA+ specs); parse every module so that a broken
# spec is found here and not in the middle of a check.
set -e
cd "$(dirname "$0")"
LIB=$(find spec -mindepth 1 -maxdepth 1 -type d | sort | sed "s|^|$PWD/|" | tr '\n' ':')
fail=0
for f in $(find spec -name '*.tla' | sort); do
  d=$(dirname "$f"); b=$(basename "$f")
  out=$(cd "$d" && java -DTLA-Library="$LIB" -cp /opt/veriftools/tla/tla2tools.jar:/opt/veriftools/tla/CommunityModules-deps.jar tla2sany.SANY "$b" 2>&1) || true
  if echo "$out" | grep -qE "Semantic errors|Parse Error|\*\*\*Parse|Fatal error|Could not find"; then
    echo "SANY FAILED: $f"; echo "$out" | tail -20; fail=1
  fi
done
/venv/bin/python -m compileall -q harness >/dev/null
/venv/bin/python -c "import sys; sys.path.insert(0,'/repo'); import han.hdlc, han.dlde, han.autodecoder, han.meter_connection"
mkdir -p evidence replays
[ $fail -eq 0 ] && echo "setup ok"
exit $fail
